"""mastersim: the real scheduler Master over the real ZkBackend over a simulated
ZooKeeper (C09, C10, C11).

Real: scheduler.master.Master (create_rootns, load_model, init_schedule,
process + all event handlers, reschedule, check_placement_integrity,
check_integrity/_check_pending_start, tick_reboots, check_reboot),
loader.Loader, zkbackend.ZkBackend, zkutils, masterapi (event source),
traits, utils unit parsers, scheduler.Cell.
Simulated: ZooKeeper (simkit.zk), clock; Master.watch/run_loop glue is
replaced by stepping (the simulator plays the children watchers: at most one
outstanding (path, children-snapshot) event per watched path, captured at one
instant and processed at a later one, FIFO).
"""

import json
import traceback

import simkit
from simkit import SimCrash, SimProcessExit
from simkit import clock as clockmod
from simkit import engine as enginemod
from simkit import log as logmod
from simkit import rng as rngmod
from simkit import zk as zkmod

from treadmill import scheduler
from treadmill import utils
from treadmill import zknamespace as z
from treadmill import zkutils
from treadmill.scheduler import master as mastermod
from treadmill.scheduler import masterapi
from treadmill.scheduler import zkbackend

from treadmill.scheduler import loader as loadermod

from oracles import cellobs
from oracles import cellcheck

from engines import masterloop

scheduler.DIMENSION_COUNT = 3

INTRUDE_PROPS = ('C01', 'C03', 'C04', 'C05', 'C06', 'C07', 'C08', 'C09', 'C11')
LOOP_PROPS = ('C09', 'C11', 'C01', 'C02', 'C03', 'C04', 'C05', 'C06', 'C07',
              'C08')
CELL_PROPS = ('C01', 'C03', 'C04', 'C05', 'C06', 'C07', 'C08', 'C02')
_TRUTH = None
_WRAPPED = False


_OWN_UNITS = 'BKMGT'


def _own_mb(value):
    """The harness's own reading of a memory/disk quantity: exact megabytes
    (2**20 bytes) as a float.  A trailing 'B' after the unit letter makes the
    unit decimal ('1GB' is 10**9 bytes, '1G' is 2**30)."""
    text = str(value).strip().upper()
    if text in ('0', ''):
        return 0.0
    base = 1024
    if len(text) > 1 and text[-1] == 'B' and text[-2] in 'KMGT':
        base = 1000
        text = text[:-1]
    num, unit = int(text[:-1]), text[-1]
    return num * float(base ** _OWN_UNITS.index(unit)) / float(1 << 20)


def _own_cpu(value):
    text = str(value).strip()
    return float(int(text[:-1]) if text.endswith('%') else int(text))


def _own_vec(data):
    return [_own_mb(data.get('memory', 0)), _own_cpu(data.get('cpu', 0)),
            _own_mb(data.get('disk', 0))]


_TIME_SCALE = {'S': 1, 'M': 60, 'H': 3600, 'D': 86400}


def _own_seconds(value):
    text = str(value).strip().upper()
    return float(int(text[:-1]) * _TIME_SCALE[text[-1]])


class MasterTruth:
    """What the harness itself reads from the records the master loaded."""

    def __init__(self):
        self.srv = {}
        self.apps = {}
        self.groups = {}
        self.allocations = []     # the list the master loaded last
        self.alloc_by_path = {}   # path -> the record it was last loaded with
        self.app_alloc = {}       # app -> (partition, path tuple, alloc dict)
        self.down = {}            # server -> [smin, smax] (observation based)
        self.last_not_down = {}   # server -> time last observed not down
        self.view = set()         # presence as the master has been told
        self.blacklist = []       # blackout patterns the master was shown
        self.prio = {}            # app -> own priority as last loaded
        self.admin_down = set()   # servers an admin 'down' event put down
        #                           (and no later event / presence change
        #                           brought back)
        self.looked_present = set()   # servers whose presence node existed
        #                           when the master last handled a presence
        #                           snapshot (and nothing else was said since)
        self.told_gone = set()    # servers the master was told are gone (a
        #                           handled snapshot without them) and has
        #                           not been told anything else about since
        self.absent = {}          # server -> [tmin, tmax]: the master handled
        #                           a presence snapshot without the server
        #                           while its presence node was gone
        self.seen_gone = set()    # servers the master held as down, looked
        #                           at again (a presence snapshot listing
        #                           them) and found without a presence node;
        #                           forgotten with anything that touches the
        #                           server's state or presence afterwards
        self.frozen = set()       # (informational)
        self.marks = {}           # app -> server it was explicitly marked on
        self.stored_state = None  # callable: server -> recorded state

    # -- C01 / C04 / C05
    def capacity_of(self, sname):
        data = self.srv.get(sname)
        return _own_vec(data) if data else None

    def demand_of(self, aname):
        data = self.apps.get(aname)
        return _own_vec(data) if data else None

    def limits_of(self, aff):
        for data in self.apps.values():
            if data.get('affinity') == aff:
                return data.get('affinity_limits') or {}
        return {}

    def level_of(self, node):
        """server / rack / pod / ... / cell, by the harness's reading."""
        if isinstance(node, scheduler.Server):
            return 'server'
        if isinstance(node, scheduler.Cell):
            return 'cell'
        return str(node.name).split(':')[0]

    def affinity_of(self, aname):
        data = self.apps.get(aname)
        return data.get('affinity') if data else None

    def group_of(self, aname):
        data = self.apps.get(aname)
        return data.get('identity_group') if data else None

    def group_count(self, gname):
        return self.groups.get(gname, 0)

    def why_unplaced(self, app, ctx):
        for ev in ctx.rec.events:
            if ev[0] == 'infeasible' and ev[1] == app.name:
                return 'infeasible-skip'
        if app.schedule_once and app.evicted:
            return 'schedule-once-evicted'
        return 'other'

    # -- C03 / C06: the harness's own reading of the assignment rules
    def assign(self, aname):
        """(partition, allocation path, allocation record or None)."""
        import fnmatch
        key = aname[:aname.find('.')]
        for alloc in self.allocations:
            for asg in alloc.get('assignments', []):
                pattern = asg['pattern']
                if pattern[:pattern.find('.')] != key:
                    continue
                if fnmatch.fnmatchcase(aname, pattern + '[#]' + '[0-9]' * 10):
                    import re
                    path = (alloc.get('partition'),) + tuple(
                        re.split('[/:]', alloc['name']))
                    return alloc.get('partition'), path, alloc
        return '_default', ('_default', '_default', key), None

    def priority_of(self, aname):
        """The instance's priority by the records the master was shown: its
        own (0..100; -1 / absent = not set), else the matching assignment's."""
        import fnmatch
        if aname not in self.apps:
            return None
        return self.prio.get(aname)

    def resolve_priority(self, aname, own):
        import fnmatch
        if own is not None and int(own) != -1:
            return int(own)
        key = aname[:aname.find('.')]
        for alloc in self.allocations:
            for asg in alloc.get('assignments', []):
                pattern = asg['pattern']
                if pattern[:pattern.find('.')] != key:
                    continue
                if fnmatch.fnmatchcase(aname, pattern + '[#]' + '[0-9]' * 10):
                    return int(asg.get('priority', 0))
        return 1

    def partition_of(self, aname):
        return self.app_alloc[aname][0]

    def alloc_of(self, aname):
        return self.app_alloc[aname][1]

    def alloc_info(self, apath):
        for alloc in self.allocations:
            import re
            path = (alloc.get('partition'),) + tuple(
                re.split('[/:]', alloc['name']))
            if path == tuple(apath):
                rank = alloc.get('rank')
                return {'reserved': _own_vec(alloc),
                        'rank': rank if rank is not None else 100,
                        'adj': alloc.get('rank_adjustment') or 0,
                        'maxu': alloc.get('max_utilization'),
                        'traits': alloc.get('traits', [])}
        return None

    def trait_names_of(self, aname):
        names = set(self.apps.get(aname, {}).get('traits', []) or [])
        entry = self.app_alloc.get(aname)
        if entry and entry[2] is not None:
            # the allocation OBJECT the instance sits in is updated in place
            # by every later load of the allocations (also for an instance
            # that is itself not loaded again): its current record counts
            alloc = self.alloc_by_path.get(entry[1], entry[2])
            names |= set(alloc.get('traits', []) or [])
        return names

    def traits_of(self, aname):
        return sorted(self.trait_names_of(aname))

    def srv_label(self, sname):
        return self.srv[sname].get('partition') or '_default'

    def srv_traits(self, sname):
        return sorted(self.srv[sname].get('traits', []) or [])

    def valid_for(self, aname, sname):
        if self.srv_label(sname) != self.partition_of(aname):
            return 'partition'
        if not self.trait_names_of(aname) <= set(self.srv_traits(sname)):
            return 'traits'
        return None

    def lease_of(self, aname):
        return _own_seconds(self.apps[aname].get('lease', '0s'))

    def retention_of(self, aname):
        value = self.apps[aname].get('data_retention_timeout')
        return _own_seconds(value) if value is not None else None

    # -- C08: when did each server go down, from the harness's observations
    def down_interval(self, sname):
        iv = self.down.get(sname)
        return tuple(iv) if iv else None

    def blacklisted(self, aname):
        """By the patterns the master has been shown (at start, and with
        each apps_blacklist event it handled)."""
        import fnmatch
        base = aname.split('#')[0]
        return any(fnmatch.fnmatch(base, pat) for pat in self.blacklist)

    def absent_interval(self, sname):
        """When the master was told that the server is gone (it handled a
        presence snapshot that does not list it, the presence node being gone
        at that moment too) and nothing since has changed the server's state
        (no state event, reload, restart): that is the server going down,
        whatever the model calls it."""
        iv = self.absent.get(sname)
        return tuple(iv) if iv else None

    def state_of(self, sname):
        """The state the master has RECORDED for the server (the data of
        /placement/<server>, which every state change is written to and which
        a restarted master restores): a model that believes a server is up
        while its own record says down or frozen has lost track of it."""
        if sname in self.seen_gone:
            # whatever a stale snapshot said: when the master looked, the
            # server's presence node was gone, and it has not come back
            return 'down'
        if self.stored_state is None:
            return None
        return self.stored_state(sname)

    def marked(self, aname, sname):
        return self.marks.get(aname) == sname


_FREEZE_WRAPPED = False
_FREEZE_LOG = None


def _install_freeze_wrapper():
    """Master._freeze_server is the one place an instance is 'explicitly
    marked for unscheduling' (server_state event, pending-start check); the
    harness records the calls (server, apps named)."""
    global _FREEZE_WRAPPED
    if _FREEZE_WRAPPED:
        return
    _FREEZE_WRAPPED = True
    orig = mastermod.Master._freeze_server

    def _freeze_server(self, servername, apps=None, *args, **kwargs):
        if _FREEZE_LOG is not None:
            _FREEZE_LOG.append((servername, list(apps or [])))
        return orig(self, servername, apps, *args, **kwargs)

    mastermod.Master._freeze_server = _freeze_server


WATCHED = (z.SERVER_PRESENCE, z.SCHEDULED, z.EVENTS, z.BLACKEDOUT_SERVERS)
DAY = 86400.0


def _sys_exit(code):
    raise SimProcessExit(code)


class MasterDied(Exception):
    """The master process exited (exit_on_unhandled) or raised."""

    def __init__(self, where, err):
        Exception.__init__(self, '%s: %r' % (where, err))
        self.where = where
        self.err = err


class World(masterloop.LoopWorld):
    def __init__(self, config, clock, prop, log):
        self.config = config
        self.clock = clock
        self.prop = prop
        self.log = log
        self.zk = zkmod.SimZk(clock, log)
        self.zk.order_seed = config.get('child_order')
        self.admin = self.zk.connect('admin')
        self.node_sessions = {}       # server -> client (presence owner)
        self.untold_servers = set()   # see op_bucket_create
        self.told_buckets = set()     # bucket definitions the master has read
        self.held_servers = set()     # servers the master could load
        self.master = None
        self.master_client = None
        self.master_gen = 0
        self.queue = []               # outstanding snapshots FIFO
        self.seen_cversion = {}       # watched path -> cversion at snapshot
        self.violation = None
        self.step = 0
        self.fps = []
        self.nontrivial = 0
        self.cycles_since_start = 0
        self.probes = {'master_cycles': 0, 'reschedules': 0, 'starts': 0,
                       'events_processed': 0, 'placement_writes': 0,
                       'placements_checked': 0, 'stale_snapshot_processed': 0,
                       'integrity_repairs': 0, 'restart_probes': 0,
                       'restart_probes_strong': 0, 'entries_strong': 0,
                       'pending_start_freeze': 0, 'schedule_once_removed': 0,
                       'crash_variants': 0, 'crash_mid_publication': 0,
                       'server_reloads': 0}
        self.faults = {'master_restart': 0, 'presence_expired': 0,
                       'presence_up': 0, 'server_changed': 0,
                       'server_deleted': 0, 'master_crash': 0,
                       'clock_jump': 0, 'group_changed': 0,
                       'allocations_changed': 0, 'server_state_event': 0,
                       'blackout': 0}
        self.dirty_since_cycle = True
        self.last_step_writes = 0
        self.died = {}
        self.cur_cell = None
        self.truth = None
        self.ops_since_cycle = []
        self.dups_before = set()
        self.last_cycle_caught_up = False
        self.writes_at_cycle_end = 0
        self.placement_at_cycle_end = None
        self.intruded = set()
        self.pending_intrusion = None
        self.intrusion_fired = False
        self.late_events = {}         # event node -> payload, posted mid-step
        self._setup_static()

    # ------------------------------------------------------------------
    def fail(self, sig, detail):
        if self.violation is None:
            self.violation = {'sig': sig, 'detail': detail, 'step': self.step}

    def _setup_static(self):
        """Cell definition an admin would have created before the master."""
        cfg = self.config
        adm = self.admin
        for path in (z.BUCKETS, z.CELL, z.SERVERS, z.SCHEDULED, z.EVENTS,
                     z.SERVER_PRESENCE, z.PLACEMENT, z.IDENTITY_GROUPS,
                     z.PARTITIONS, z.BLACKEDOUT_SERVERS, z.RUNNING,
                     z.FINISHED):
            zkutils.ensure_exists(adm, path)
        if cfg['traits']:
            zkutils.put(adm, z.path.traits(), cfg['traits'])
        for part in cfg['partitions']:
            if part != '_default':
                zkutils.put(adm, z.path.partition(part), {})
        for pod, racks in cfg['topology']:
            masterapi.create_bucket(adm, pod, None)
            masterapi.cell_insert_bucket(adm, pod)
            for rack in racks:
                masterapi.create_bucket(adm, rack, pod)
        if cfg['allocations'] is not None:
            masterapi.update_allocations(adm, cfg['allocations'])
        for name, count in cfg['groups']:
            masterapi.update_identity_group(adm, name, count)
        for spec in cfg['servers']:
            self.op_srv_set(dict(spec, op='srv_set'))
            if spec.get('up', True):
                self.op_presence_up({'name': spec['name']})
        # the events created above are history: a starting master loads the
        # model directly; stale events are processed after the start.

    # ------------------------------------------------------------------
    # master life cycle
    def start_master(self, fault=None):
        """What run_loop does before its loop.  `fault` = crash plan for the
        master client, counted in storage writes from load_model on."""
        self.master_gen += 1
        self.untold_servers.clear()
        self.told_buckets = set(self.zk.children(z.BUCKETS) or [])
        self.held_servers = {name for name in self.zk.children(z.SERVERS)
                             or [] if self._master_can_load(name)}
        if self.master_client is not None:
            self.zk.expire(self.master_client.client_id[0])
        client = self.zk.connect('master%d' % self.master_gen)
        self.master_client = client
        if self.pending_intrusion is not None:
            self._arm_intrusion(self.pending_intrusion)
        self.master = None
        self.queue = []
        self.seen_cversion = {}
        master = mastermod.Master(zkbackend.ZkBackend(client), 'cell')
        self.cur_cell = master.cell
        if self.prop in CELL_PROPS:
            global _TRUTH
            old_truth = self.truth
            self.truth = MasterTruth()
            self.truth.stored_state = self._stored_state
            if old_truth is not None:
                self.truth.last_not_down = dict(old_truth.last_not_down)
            _TRUTH = self.truth
        self._guard('start', lambda: (master.create_rootns(),
                                      master.store_timezone()))
        base = client.nwrites
        if fault is not None:
            client.fault_plan = dict(fault, at=base + fault['at'])
        try:
            self._guard('start', master.load_model)
            if self.prop in CELL_PROPS:
                self.truth_load_all()
            self._guard('start', master.init_schedule)
        finally:
            client.fault_plan = None
            self.last_step_writes = client.nwrites - base
        self.master = master
        # attach_watchers: the initial children snapshot of every path
        for path in WATCHED:
            self._snapshot(path)
        self.probes['starts'] += 1
        self.cycles_since_start = 0
        self.dirty_since_cycle = False

    # -- harness-side truth, driven by what the master has been shown
    def _zk_obj(self, path):
        node = self.zk.nodes.get(path)
        if node is None or not node.data:
            return None
        try:
            return json.loads(node.data.decode())
        except ValueError:
            return None

    def _master_can_load(self, sname):
        """Defined, with data, under a bucket whose definition the master
        has read."""
        data = self._zk_obj(z.path.server(sname)) or {}
        return bool(data.get('parent')) and \
            data['parent'] in self.told_buckets

    def server_loadable(self, sname):
        """Is the server a server of the cell by the records: defined, with a
        chain of existing buckets up to one that is attached to the cell?"""
        data = self._zk_obj(z.path.server(sname)) or {}
        parent = data.get('parent')
        attached = set(self.zk.children(z.CELL) or [])
        for _ in range(8):
            if not parent or self.zk.nodes.get(z.path.bucket(parent)) is None:
                return False
            if parent in attached:
                return True
            parent = (self._zk_obj(z.path.bucket(parent)) or {}).get('parent')
        return False

    def _stored_state(self, sname):
        stored = self._zk_obj(z.path.placement(sname))
        if isinstance(stored, dict):
            return stored.get('state')
        return None

    def _truth_app(self, name, add=True):
        truth = self.truth
        manifest = self._zk_obj(z.path.scheduled(name))
        if not manifest:
            truth.apps.pop(name, None)
            truth.app_alloc.pop(name, None)
            truth.marks.pop(name, None)
            truth.prio.pop(name, None)
            return
        if name not in truth.apps:
            if not add:
                return
            truth.apps[name] = manifest
        truth.app_alloc[name] = truth.assign(name)
        # (the priority is resolved every time the master loads the instance
        # - its own, else the matching assignment's as of now - and stays
        # what it was until the next load)
        truth.prio[name] = truth.resolve_priority(name,
                                                  manifest.get('priority'))

    def _truth_server(self, name, adjust=True):
        """The server record as the harness reads it (what Loader.load_server
        / reload_server read at this moment)."""
        truth = self.truth
        data = self._zk_obj(z.path.server(name))
        if data and data.get('parent'):
            truth.srv[name] = data
        else:
            truth.srv.pop(name, None)

    def _truth_alloc_paths(self):
        import re as _re
        for alloc in self.truth.allocations:
            path = (alloc.get('partition'),) + tuple(
                _re.split('[/:]', alloc['name']))
            self.truth.alloc_by_path[path] = alloc

    def truth_load_all(self):
        """What a starting master reads, read by the harness itself."""
        truth = self.truth
        zk = self.zk
        truth.srv = {}
        for name in zk.children(z.SERVERS) or []:
            self._truth_server(name, adjust=False)
        truth.allocations = list(self._zk_obj(z.ALLOCATIONS) or [])
        truth.alloc_by_path = {}
        self._truth_alloc_paths()
        truth.apps = {}
        truth.prio = {}
        truth.app_alloc = {}
        for name in zk.children(z.SCHEDULED) or []:
            self._truth_app(name)
        truth.groups = {}
        for name in zk.children(z.IDENTITY_GROUPS) or []:
            data = self._zk_obj(z.path.identity_group(name))
            if data:
                truth.groups[name] = data.get('count', 0)
        truth.view = set(zk.children(z.SERVER_PRESENCE) or [])
        truth.absent = {}
        truth.told_gone = set()
        truth.looked_present = set()
        truth.seen_gone = set()
        truth.blacklist = list(self._zk_obj(z.BLACKEDOUT_APPS) or [])
        truth.admin_down = set()
        truth.frozen = set()
        for name in truth.srv:
            stored = self._zk_obj(z.path.placement(name))
            # a server without presence is recorded as down at start-up,
            # which overwrites a stored 'frozen'
            if stored and stored.get('state') == 'frozen' and \
                    name in truth.view:
                truth.frozen.add(name)
        truth.marks = {}

    def truth_before_process(self, path, children):
        """Payloads of the events in the snapshot (the master deletes the
        event nodes after handling them)."""
        if path == z.SERVER_PRESENCE:
            # adjust_presence reloads the servers the MODEL holds as down and
            # that are in the snapshot; the model's state is what it recorded
            # (a server that never had a state recorded is held as down:
            # adjust_server_state defaults to it and records only changes)
            # ... and a held server the master was told is gone (it handled
            # a snapshot without it, nothing changed its state since) is
            # held as down whatever the model recorded
            return sorted(name for name in self.truth.srv
                          if self._stored_state(name) in ('down', None) or
                          (name in self.truth.told_gone and
                           name in self.held_servers))
        if path != z.EVENTS:
            return None
        import re as _re
        events = []
        for node in children:
            if _re.match(r'\d+\-\w+\-\d+$', node):
                prio, resource, seq = node.split('-')
                events.append((prio, seq, resource,
                               self._zk_obj(z.path.event(node))))
        events.sort(key=lambda e: (e[0], e[1], e[2]))
        return events

    def truth_after_process(self, path, children, events):
        truth = self.truth
        if path == z.SERVER_PRESENCE:
            for name in events or []:
                if name in children and name in truth.srv:
                    self._truth_server(name)     # reloaded on coming up
                    truth.told_gone.discard(name)
                    # ... and its state set by whether its presence node
                    # exists NOW, not by the (possibly stale) snapshot
                    if self.zk.nodes.get(
                            z.path.server_presence(name)) is None and \
                            name not in self.intruded:
                        # (a node that died while the master was at work
                        # may have been looked at before it died)
                        truth.seen_gone.add(name)
            for name in sorted(truth.seen_gone):
                if self.zk.nodes.get(
                        z.path.server_presence(name)) is not None:
                    truth.seen_gone.discard(name)
            for name in children:
                truth.admin_down.discard(name)
            for name in sorted(truth.srv):
                here = self.zk.nodes.get(
                    z.path.server_presence(name)) is not None
                if name in self.intruded or name not in self.held_servers:
                    truth.looked_present.discard(name)
                elif here and (name in children or
                               name in truth.looked_present):
                    # listed and there when the master looked (a server
                    # held as down is reloaded and found present), or held
                    # as present before and found present again
                    truth.looked_present.add(name)
                else:
                    truth.looked_present.discard(name)
            now = self.clock.peek()
            for name in sorted(truth.srv):
                if name in children or self.zk.nodes.get(
                        z.path.server_presence(name)) is not None:
                    truth.absent.pop(name, None)
                elif name in self.intruded:
                    # its presence changed while the master was at work:
                    # whether the master found it there is not known
                    truth.absent.pop(name, None)
                    truth.told_gone.discard(name)
                else:
                    truth.told_gone.add(name)
                    if name not in truth.absent:
                        truth.absent[name] = [self._proc_t0, now]
        elif path == z.SCHEDULED:
            target = set(children)
            for name in sorted(set(truth.apps) - target):
                truth.apps.pop(name, None)
                truth.app_alloc.pop(name, None)
                truth.marks.pop(name, None)
            for name in sorted(target - set(truth.apps)):
                self._truth_app(name)
        elif path == z.EVENTS:
            import re as _re
            late = []
            for node in sorted(self.late_events):
                if node in children:
                    del self.late_events[node]
                elif self.zk.nodes.get(z.path.event(node)) is None:
                    # posted while the master was handling this batch and
                    # deleted by it: the master has taken it on
                    payload = self.late_events.pop(node)
                    if _re.match(r'\d+\-\w+\-\d+$', node):
                        prio, resource, seq = node.split('-')
                        late.append((prio, seq, resource, payload))
            events = list(events) + sorted(
                late, key=lambda e: (e[0], e[1], e[2]))
            for _prio, _seq, resource, payload in events:
                if resource == 'allocations':
                    data = self._zk_obj(z.ALLOCATIONS)
                    truth.allocations = list(data) if data else []
                    self._truth_alloc_paths()
                    # load_apps(): every instance still in /scheduled is
                    # loaded again (and so re-assigned); one that is gone
                    # from there keeps its allocation until the scheduled
                    # snapshot is processed
                    for name in self.zk.children(z.SCHEDULED) or []:
                        self._truth_app(name)
                elif resource == 'apps':
                    for name in payload or []:
                        self._truth_app(name)
                elif resource == 'apps_blacklist':
                    truth.blacklist = list(
                        self._zk_obj(z.BLACKEDOUT_APPS) or [])
                elif resource == 'servers':
                    # without a list the master reloads the difference
                    # between the servers IT HOLDS and the ones defined
                    names = payload or sorted(
                        self.held_servers ^ set(self.zk.children(z.SERVERS)
                                                or []))
                    for name in names:
                        self._truth_server(name)
                        if self._master_can_load(name):
                            self.held_servers.add(name)
                        else:
                            self.held_servers.discard(name)
                        truth.absent.pop(name, None)
                        truth.told_gone.discard(name)
                        truth.looked_present.discard(name)
                        truth.seen_gone.discard(name)
                        parent = (self._zk_obj(z.path.server(name)) or
                                  {}).get('parent')
                        if parent in self.told_buckets:
                            self.untold_servers.discard(name)
                        else:
                            # told about the server before it was told about
                            # the server's rack: it could not load it
                            self.untold_servers.add(name)
                elif resource in ('cell', 'buckets'):
                    truth.absent.clear()
                    truth.told_gone.clear()
                    truth.looked_present.clear()
                    truth.seen_gone.clear()
                    if resource == 'buckets':
                        self.told_buckets = set(
                            self.zk.children(z.BUCKETS) or [])
                elif resource == 'server_state':
                    if payload:
                        name, state = payload[0], payload[1]
                        apps = payload[2] if len(payload) > 2 else None
                        # the state changes NOW (when the event is handled,
                        # possibly long after it was posted): the harness's
                        # bounds on when the server went down start afresh
                        truth.down.pop(name, None)
                        truth.absent.pop(name, None)
                        truth.told_gone.discard(name)
                        truth.looked_present.discard(name)
                        truth.seen_gone.discard(name)
                        if name not in truth.srv:
                            continue
                        if state == 'down':
                            truth.admin_down.add(name)
                        else:
                            truth.admin_down.discard(name)
                        if state == 'frozen':
                            truth.frozen.add(name)
                            server = self.master.servers.get(name)
                            for aname in apps or []:
                                if server is not None and \
                                        aname in server.apps:
                                    truth.marks[aname] = name
                        elif state == 'up':
                            truth.frozen.discard(name)
                            truth.view.add(name)
                        elif state == 'down':
                            truth.frozen.discard(name)
                            truth.view.discard(name)
                elif resource == 'identity_groups':
                    truth.groups = {}
                    for name in self.zk.children(z.IDENTITY_GROUPS) or []:
                        data = self._zk_obj(z.path.identity_group(name))
                        if data:
                            truth.groups[name] = data.get('count', 0)

    def truth_apply_freezes(self, log, down_before=()):
        """Calls of Master._freeze_server during the pending-start check.
        An instance that does not start is taken off its server only if the
        server is not down (one that is down cannot start anything: its
        instances are kept for their retention time)."""
        truth = self.truth
        for servername, apps in log:
            if servername not in truth.srv or servername in down_before:
                continue
            truth.frozen.add(servername)
            server = self.master.servers.get(servername) \
                if self.master is not None else None
            for aname in apps:
                if server is not None and aname in server.apps:
                    truth.marks[aname] = servername

    def cycle_hook(self, cell, orig_schedule):
        """Observe a cell.schedule() made by the real Master (C01/C04/C05 at
        master level: the ZooKeeper->model path is part of the run)."""
        if cell is not self.cur_cell or self.prop not in CELL_PROPS or \
                self.prop == 'C02':
            return orig_schedule(cell)
        ctx = cellcheck.CycleCtx(cell, self.truth)
        ctx.pre = cellcheck.snapshot_apps(cell)
        if self.prop == 'C06':
            # the priority is an input: read from the records, not from what
            # the loader made of it
            for aname, snap in ctx.pre.items():
                prio = self.truth.priority_of(aname)
                if prio is not None:
                    snap.priority = prio
        ctx.pre_srv = cellcheck.snapshot_servers(cell)
        ctx.rec = cellobs.Recorder()
        ctx.t0 = self.clock.peek()
        self.observe_states(ctx)
        cellobs.set_recorder(ctx.rec)
        try:
            ctx.placement = orig_schedule(cell)
        finally:
            cellobs.set_recorder(None)
        ctx.t1 = self.clock.peek()
        ctx.post = cellcheck.snapshot_apps(cell)
        self.probes['cell_cycles_checked'] = \
            self.probes.get('cell_cycles_checked', 0) + 1
        changed = any(ctx.pre.get(n) is None or ctx.pre[n].server != p.server
                      for n, p in ctx.post.items())
        evictions = any(e[0] == 'remove' and e[3] == 'find'
                        for e in ctx.rec.events)
        if self.prop in ('C01', 'C03'):
            self.nontrivial += 1 if changed else 0
        elif self.prop in ('C04', 'C07'):
            self.nontrivial += 1 if evictions else 0
        elif self.prop == 'C06':
            self.nontrivial += 1 if any(
                len({self.truth.alloc_of(e[5]) for e in ents}) > 1
                for _l, ents in ctx.rec.entries) else 0
        elif self.prop == 'C08':
            self.nontrivial += 1 if any(
                ctx.pre_srv.get(p.server, (None,))[0] in ('down', 'frozen')
                for p in ctx.pre.values()) else 0
        else:
            self.nontrivial += 1 if any(
                p.identity is not None for p in ctx.post.values()) else 0
        bad = cellcheck.CHECKS[self.prop](ctx)
        if bad is not None:
            self.fail(bad[0] + ':master-level', bad[1])
        for aname, sname in list(self.truth.marks.items()):
            post = ctx.post.get(aname)
            if post is None or post.server != sname:
                del self.truth.marks[aname]
        return ctx.placement

    def observe_states(self, ctx):
        """Harness-side bounds on when each server went down.  smin = the
        last instant the harness saw the server not down (or the last world
        op that could change its state), smax = the first instant it saw it
        down since then.  Sound whatever the master recorded: the true
        instant lies in [smin, smax]."""
        truth = self.truth
        now = ctx.t0
        for sname, (state, _since) in ctx.pre_srv.items():
            if state != 'down':
                truth.last_not_down[sname] = now
                truth.down.pop(sname, None)
            elif sname not in truth.down:
                truth.down[sname] = [
                    truth.last_not_down.get(sname, float('-inf')), now]
        for sname in list(truth.down):
            if sname not in ctx.pre_srv:
                del truth.down[sname]

    def touch_state(self, sname=None):
        """A world op may have changed a server's state: forget bounds."""
        if self.truth is None:
            return
        names = [sname] if sname else list(self.truth.down)
        for name in names:
            self.truth.down.pop(name, None)
        if sname:
            self.truth.absent.pop(sname, None)
            self.truth.seen_gone.discard(sname)
        else:
            self.truth.absent.clear()
            self.truth.seen_gone.clear()

    def _guard(self, where, fn):
        try:
            return fn()
        except SimCrash:
            raise
        except SimProcessExit as err:
            raise MasterDied(where, err)
        except simkit.HarnessError:
            raise                     # the simulator's own problem: exit 2
        except Exception as err:  # pylint: disable=broad-except
            tb = traceback.extract_tb(err.__traceback__)
            raise MasterDied('%s@%s:%s' % (where, tb[-1].name, tb[-1].line),
                             err)

    def _snapshot(self, path):
        node = self.zk.nodes.get(path)
        if node is None:
            return False
        if any(p == path for p, _c in self.queue):
            return False
        if self.seen_cversion.get(path) == node.cversion:
            return False
        self.seen_cversion[path] = node.cversion
        self.queue.append((path, sorted(node.children)))
        return True

    # ------------------------------------------------------------------
    # ops: the world
    def apply(self, op):
        self.ops_since_cycle.append(op['op'])
        name = op['op']
        if self.config.get('loop'):
            # loop tier: the master-stepping ops are carried out by the
            # repo's own run_loop (engines/masterloop.py)
            name = masterloop.LOOP_OPS.get(name, name)
        if op.get('intrude') and name == 'restart':
            # armed by start_master once the new master's session exists
            self.pending_intrusion = op['intrude']
            try:
                self.op_restart(op)
            finally:
                self.pending_intrusion = None
                if self.master_client is not None:
                    self.master_client.call_hook = None
                self.intruded = set()
                self.intrusion_fired = False
            return
        if op.get('intrude') and self.master_client is not None and \
                name in ('process', 'master_cycle', 'lop_step',
                         'lop_cycle'):
            self._arm_intrusion(op['intrude'])
            try:
                getattr(self, 'op_' + name)(op)
            finally:
                if self.master_client is not None:
                    self.master_client.call_hook = None
                self.intruded = set()
                self.intrusion_fired = False
            return
        getattr(self, 'op_' + name)(op)

    def _arm_intrusion(self, plan):
        """The world does not hold still while the master works: before
        the k-th ZooKeeper call of this master step a node dies, registers
        or an instance is deleted."""
        client = self.master_client
        left = [int(plan['at'])]
        self.intruded = set()

        def hook(path=None):
            if plan.get('on_path') is not None and path != plan['on_path']:
                return                # (counts calls that name this path)
            left[0] -= 1
            if left[0] != 0:
                return
            client.call_hook = None
            inner = plan['op']
            if inner['op'] not in ('presence_down', 'presence_up',
                                   'app_delete_quiet', 'srv_set',
                                   'srv_delete'):
                raise simkit.HarnessError('intrusion %r' % (inner,))
            ev_before = set(self.zk.children(z.EVENTS) or [])
            self.faults['mid_call_world_event'] = \
                self.faults.get('mid_call_world_event', 0) + 1
            self.intrusion_fired = True
            if inner.get('name'):
                self.intruded.add(inner['name'])
            getattr(self, 'op_' + inner['op'])(inner)
            # events posted while the master is at work
            for node in sorted(set(self.zk.children(z.EVENTS) or []) -
                               ev_before):
                self.late_events[node] = self._zk_obj(z.path.event(node))
        client.call_hook = hook

    def _node_client(self, name, fresh=False):
        client = self.node_sessions.get(name)
        if client is None or not client.connected or fresh:
            client = self.zk.connect('node-' + name)
            self.node_sessions[name] = client
        return client

    def op_srv_set(self, op):
        """Server record written (admin creates it, the node reports its
        capacity), followed by the 'servers' event masterapi posts."""
        self.touch_state(op['name'])
        name = op['name']
        node = z.path.server(name)
        data = {'parent': op['parent'], 'partition': op['partition'],
                'memory': op['memory'], 'cpu': op['cpu'], 'disk': op['disk'],
                'traits': op['traits'], 'up_since': op['up_since']}
        if op.get('quiet'):
            # a restarting node rewrites its own record before it registers
            # (presence.register_server): no event names it
            if zkutils.put(self.admin, node, data, check_content=True):
                self.faults['server_rewritten_by_node'] = \
                    self.faults.get('server_rewritten_by_node', 0) + 1
        elif zkutils.put(self.admin, node, data, check_content=True):
            masterapi.create_event(self.admin, 0, 'servers', [name])
            self.faults['server_changed'] += 1
        self.dirty_since_cycle = True

    def op_srv_delete(self, op):
        self.touch_state(op['name'])
        if self.zk.nodes.get(z.path.server(op['name'])) is None:
            return
        if op.get('raw'):
            # only the server's definition goes away (no event naming it,
            # its placement records stay for the master to deal with)
            zkutils.ensure_deleted(self.admin, z.path.server(op['name']))
        else:
            masterapi.delete_server(self.admin, op['name'])
        self.faults['server_deleted'] += 1
        self.dirty_since_cycle = True

    def op_servers_reload_all(self, _op):
        """The 'servers' event without a list: the master compares the
        servers it holds with the ones defined and reloads the difference."""
        masterapi.create_event(self.admin, 0, 'servers', [])
        self.faults['servers_reload_all'] = \
            self.faults.get('servers_reload_all', 0) + 1
        self.dirty_since_cycle = True

    def op_presence_up(self, op):
        self.touch_state(op['name'])
        name = op['name']
        if self.zk.nodes.get(z.path.server(name)) is None:
            return
        if self.zk.nodes.get(z.path.server_presence(name)) is not None:
            return
        client = self._node_client(name, fresh=True)
        zkutils.put(client, z.path.server_presence(name), {}, ephemeral=True)
        self.faults['presence_up'] += 1
        self.dirty_since_cycle = True

    def op_presence_down(self, op):
        self.touch_state(op['name'])
        client = self.node_sessions.get(op['name'])
        if client is None or not client.connected:
            return
        self.zk.expire(client.client_id[0])
        self.faults['presence_expired'] += 1
        self.dirty_since_cycle = True

    def op_app_create(self, op):
        masterapi.create_apps(self.admin, op['app_id'], op['manifest'],
                              op.get('count', 1))
        self.dirty_since_cycle = True

    def op_app_delete(self, op):
        if self.zk.nodes.get(z.path.scheduled(op['name'])) is None:
            return
        masterapi.delete_apps(self.admin, [op['name']])
        self.dirty_since_cycle = True

    def op_app_delete_quiet(self, op):
        """An instance is taken out of /scheduled and the master has not been
        told yet (its record under /placement is stale until then).  Whether
        the OTHER recorded instances are reloaded does not depend on it."""
        if self.zk.nodes.get(z.path.scheduled(op['name'])) is None:
            return
        masterapi.delete_apps(self.admin, [op['name']])
        self.dirty_since_cycle = True

    def op_apps_event(self, op):
        """An 'apps' re-evaluation event naming instances (what
        update_app_priorities posts), possibly for instances that are gone
        by the time it is handled."""
        masterapi.create_event(self.admin, 1, 'apps', list(op['names']))
        self.dirty_since_cycle = True

    def op_app_prio(self, op):
        if self.zk.nodes.get(z.path.scheduled(op['name'])) is None:
            return
        masterapi.update_app_priorities(self.admin, {op['name']: op['prio']})
        self.dirty_since_cycle = True

    def op_allocations(self, op):
        # an allocation is identified by partition and name: a list with two
        # records of one identity is not something the admin API can produce
        seen = set()
        allocations = []
        for alloc in op['allocations']:
            key = (alloc.get('partition'), alloc['name'])
            if key not in seen:
                seen.add(key)
                allocations.append(alloc)
        masterapi.update_allocations(self.admin, allocations)
        self.faults['allocations_changed'] += 1
        self.dirty_since_cycle = True

    def op_group(self, op):
        masterapi.update_identity_group(self.admin, op['name'], op['count'])
        self.faults['group_changed'] += 1
        self.dirty_since_cycle = True

    def op_group_delete(self, op):
        if self.zk.nodes.get(z.path.identity_group(op['name'])) is None:
            return
        masterapi.delete_identity_group(self.admin, op['name'])
        self.faults['group_changed'] += 1
        self.dirty_since_cycle = True

    def op_srv_state(self, op):
        self.touch_state(op['name'])
        masterapi.update_server_state(self.admin, op['name'], op['state'],
                                      op.get('apps'))
        self.faults['server_state_event'] += 1
        self.dirty_since_cycle = True

    def op_apps_blacklist(self, op):
        zkutils.put(self.admin, z.BLACKEDOUT_APPS, data=op['patterns'])
        masterapi.create_event(self.admin, 0, 'apps_blacklist', None)
        self.faults['blackout'] += 1
        self.dirty_since_cycle = True

    def op_blackout_server(self, op):
        path = z.path.blackedout_server(op['name'])
        if op['flag']:
            zkutils.ensure_exists(self.admin, path)
        else:
            zkutils.ensure_deleted(self.admin, path)
        self.faults['blackout'] += 1
        self.dirty_since_cycle = True

    def op_cell_bucket(self, op):
        """A top level bucket is detached from / attached to the cell."""
        self.touch_state()
        if op['present']:
            masterapi.cell_insert_bucket(self.admin, op['name'])
        else:
            masterapi.cell_remove_bucket(self.admin, op['name'])
        self.faults['cell_bucket_changed'] = \
            self.faults.get('cell_bucket_changed', 0) + 1
        self.dirty_since_cycle = True

    def op_bucket_delete(self, op):
        """The definition of a bucket is deleted (masterapi posts no event:
        a running master keeps the bucket, a newly elected one cannot load
        the servers below it)."""
        if self.zk.nodes.get(z.path.bucket(op['name'])) is None:
            return
        masterapi.delete_bucket(self.admin, op['name'])
        self.faults['bucket_deleted'] = self.faults.get('bucket_deleted', 0) + 1
        self.dirty_since_cycle = True

    def op_bucket_create(self, op):
        if self.zk.nodes.get(z.path.bucket(op['name'])) is not None:
            return
        masterapi.create_bucket(self.admin, op['name'], op['parent'])
        self.dirty_since_cycle = True
        # the 'buckets' event makes a running master load the bucket, not
        # the servers defined below it: until it is told about them (servers
        # event, restart) they are not part of what it can be expected to use
        for name in self.zk.children(z.SERVERS) or []:
            data = self._zk_obj(z.path.server(name)) or {}
            if data.get('parent') == op['name']:
                self.untold_servers.add(name)

    def op_bucket_reparent(self, op):
        """An administrator redeclares an existing bucket under another
        parent (masterapi.create_bucket on a name that exists: the record is
        rewritten and a 'buckets' event posted).  A running master keeps a
        loaded bucket where it is; a newly started one builds the topology
        from the records."""
        if self.zk.nodes.get(z.path.bucket(op['name'])) is None or \
                self.zk.nodes.get(z.path.bucket(op['parent'])) is None:
            return
        masterapi.create_bucket(self.admin, op['name'], op['parent'])
        self.faults['bucket_reparented'] = \
            self.faults.get('bucket_reparented', 0) + 1
        self.dirty_since_cycle = True

    def op_zombie_write(self, op):
        """A delayed write of a former master that lost leadership but whose
        session is not gone yet: a placement record for an instance under a
        second server (fault kind: duplicated/late message)."""
        if self.zk.nodes.get(z.path.scheduled(op['app'])) is None:
            return
        if self.zk.nodes.get(z.path.placement(op['server'])) is None:
            return
        path = z.path.placement(op['server'], op['app'])
        if self.zk.nodes.get(path) is not None:
            return
        zkutils.put(self.admin, path, op['data'])
        self.faults['zombie_write'] = self.faults.get('zombie_write', 0) + 1
        self.dirty_since_cycle = True
        # ... and the newly elected master starts (one atomic op: a duplicate
        # under a RUNNING master is outside the quantifiers)
        self.op_restart({'op': 'restart'})

    def op_running(self, op):
        """The node reports the instance running (ephemeral /running/x)."""
        name = op['name']
        for srv in self.zk.children(z.PLACEMENT) or []:
            if name in (self.zk.children(z.path.placement(srv)) or []):
                client = self.node_sessions.get(srv)
                if client is not None and client.connected:
                    path = z.path.running(name)
                    if self.zk.nodes.get(path) is None:
                        zkutils.put(client, path, srv, ephemeral=True)
                return

    def op_advance(self, op):
        self.clock.advance(op['dt'])
        if op['dt'] >= 3600:
            self.faults['clock_jump'] += 1

    # ------------------------------------------------------------------
    # ops: the master, stepped the way run_loop does
    def op_snap(self, op):
        self._snapshot(op['path'])

    def op_process(self, _op):
        """Process the oldest outstanding watch event."""
        if self.master is None or not self.queue:
            return
        path, children = self.queue.pop(0)
        node = self.zk.nodes.get(path)
        if node is not None and sorted(node.children) != children:
            self.probes['stale_snapshot_processed'] += 1
        self.master.process_complete.setdefault(
            path, self.master.backend.event_object())
        global _FREEZE_LOG
        cellp = self.prop in CELL_PROPS
        events = self.truth_before_process(path, children) if cellp else None
        self._proc_t0 = self.clock.peek()
        _FREEZE_LOG = [] if cellp else None
        held_before = self.servers_with_apps()
        try:
            # Master.process is wrapped by utils.exit_on_unhandled (logs and
            # exits); call the wrapped function so the cause is visible.
            raw = getattr(mastermod.Master.process, '__wrapped__', None)
            if raw is not None:
                self._guard('process', lambda: raw(self.master,
                                                   (path, children)))
            else:
                self._guard('process', lambda: self.master.process(
                    (path, children)))
        except MasterDied as err:
            _FREEZE_LOG = None
            self.on_master_died(err)
            return
        if cellp:
            self.truth_after_process(path, children, events)
            _FREEZE_LOG = None
            self.check_no_server_dropped(self.master, held_before)
        self.probes['events_processed'] += 1
        # the watcher re-arms: a change since the snapshot is noticed now
        self._snapshot(path)

    def op_drain(self, _op):
        """Snapshots of everything that changed, processed until quiet."""
        for _ in range(50):
            if self.master is None:
                return
            for path in WATCHED:
                self._snapshot(path)
            if not self.queue:
                return
            self.op_process({})

    def op_master_cycle(self, op):
        """if not up_to_date: reschedule(); check_placement_integrity()."""
        master = self.master
        self.last_step_writes = 0
        if master is None:
            return
        self.probes['master_cycles'] += 1
        if master.up_to_date:
            return
        writes_before = self.master_client.nwrites
        self.dups_before = self.duplicates()
        caught_up = self.caught_up()
        if op.get('crash_at') is not None:
            self.master_client.fault_plan = {
                'at': writes_before + op['crash_at'], 'kind': 'crash',
                'applied': bool(op.get('applied'))}
        try:
            self._guard('reschedule', master.reschedule)
            self._guard('check_placement_integrity',
                        master.check_placement_integrity)
        except MasterDied as err:
            self.on_master_died(err)
            return
        except SimCrash:
            self.faults['master_crash'] += 1
            self.master = None
            self.zk.expire(self.master_client.client_id[0])
            self.check_no_duplicates('crash-in-cycle')
            return
        finally:
            self.master_client.fault_plan = None
            self.last_step_writes = self.master_client.nwrites - writes_before
        self.probes['reschedules'] += 1
        self.cycles_since_start += 1
        nw = self.master_client.nwrites - writes_before
        self.probes['placement_writes'] += nw
        if nw > 2:
            self.nontrivial += 1
        self.after_cycle('cycle', caught_up)

    # -- C02 at master level
    def _m_probe_fits(self, inst, manifest):
        """The harness's own scan of the ZooKeeper records: a server that is
        defined, attached to the cell, present, recorded as up, in the
        instance's partition, with the traits, room in every dimension
        (declared capacity minus what is recorded under it) and affinity
        head-room at every level.  Returns (server, free) or None."""
        import math
        truth = self.truth
        zk = self.zk
        part, _path, alloc = truth.assign(inst)
        if alloc is not None and alloc.get('max_utilization') is not None:
            return None
        need = set(manifest.get('traits') or [])
        if alloc is not None:
            need |= set(alloc.get('traits') or [])
        demand = _own_vec(manifest)
        limits = manifest.get('affinity_limits') or {}
        aff = manifest.get('affinity')
        attached = set(zk.children(z.CELL) or [])
        stored = self.stored_placement()
        scheduled = set(zk.children(z.SCHEDULED) or [])
        chain = {}                    # server -> [server, rack, pod.., cell]

        def chain_of(sname):
            if sname not in chain:
                out = [('server', sname)]
                data = self._zk_obj(z.path.server(sname)) or {}
                parent = data.get('parent')
                ok = False
                for _ in range(6):
                    if not parent:
                        break
                    bdata = self._zk_obj(z.path.bucket(parent))
                    if bdata is None and \
                            zk.nodes.get(z.path.bucket(parent)) is None:
                        break
                    out.append((parent.split(':')[0], parent))
                    if parent in attached:
                        ok = True
                        break
                    parent = (bdata or {}).get('parent')
                out.append(('cell', 'cell'))
                chain[sname] = out if ok else None
            return chain[sname]

        counts = {}
        used = {}
        for app, recs in stored.items():
            if app not in scheduled or app == inst:
                continue
            man = self._zk_obj(z.path.scheduled(app)) or {}
            for srv, _d in recs:
                vec = _own_vec(man)
                acc = used.setdefault(srv, [0.0, 0.0, 0.0])
                for d in range(3):
                    acc[d] += vec[d]
                if man.get('affinity') == aff and chain_of(srv):
                    for node in chain_of(srv):
                        counts[node] = counts.get(node, 0) + 1
        for sname in sorted(truth.srv):
            data = self._zk_obj(z.path.server(sname))
            if not data or not data.get('parent'):
                continue
            if zk.nodes.get(z.path.server_presence(sname)) is None:
                continue
            state = self._stored_state(sname)
            if state == 'frozen' or sname in truth.admin_down or \
                    sname in self.untold_servers:
                continue
            # (everything is handled and the server is present: unless an
            # administrator put it down or it is frozen it is up, whatever
            # the master recorded or failed to record)
            nodes = chain_of(sname)
            if not nodes:
                continue
            if (data.get('partition') or '_default') != part:
                continue
            if not need <= set(data.get('traits') or []):
                continue
            cap = [math.floor(x + 1e-9) for x in _own_vec(data)]
            acc = used.get(sname, [0.0, 0.0, 0.0])
            free = [cap[d] - acc[d] for d in range(3)]
            if any(demand[d] > free[d] for d in range(3)):
                continue
            if any(limits.get(level) is not None and
                   counts.get((level, name), 0) >= limits[level]
                   for level, name in nodes):
                continue
            return (sname, free)
        return None

    def m_free(self, sname):
        """Declared capacity of the server minus what is recorded under it
        (whole units), by the harness's reading of the records."""
        import math
        data = self._zk_obj(z.path.server(sname))
        if not data or not data.get('parent'):
            return None
        free = [math.floor(x + 1e-9) for x in _own_vec(data)]
        scheduled = set(self.zk.children(z.SCHEDULED) or [])
        for app in self.zk.children(z.path.placement(sname)) or []:
            if app in scheduled:
                vec = _own_vec(self._zk_obj(z.path.scheduled(app)) or {})
                for d in range(3):
                    free[d] -= vec[d]
        return free

    def op_m_probe(self, op):
        """C02 through the real master: the cell is brought to rest (every
        event handled, a cycle that writes nothing), one new instance is
        submitted, the next cycle must place it if the harness's own scan of
        the records finds a server that fits."""
        if self.prop != 'C02' or self.master is None:
            return
        quiet = False
        for _ in range(4):
            self.op_drain({})
            if self.master is None:
                return
            before = self.placement_digest()
            # (forced: the probe needs a cycle that changes nothing; whether
            # the master notices the NEW instance by itself is left to it)
            self.master.up_to_date = False
            self.op_master_cycle({})
            if self.master is None or self.violation is not None:
                return
            for path in WATCHED:
                self._snapshot(path)
            if not self.queue and self.placement_digest() == before:
                quiet = True
                break
        if quiet and self.master.cell.next_event_at < self.clock.peek() + 5.0:
            quiet = False             # something is about to expire
        blacklist = self._zk_obj(z.BLACKEDOUT_APPS)
        if not quiet or blacklist:
            self.probes['probe_not_quiescent'] = \
                self.probes.get('probe_not_quiescent', 0) + 1
            return
        manifest = op['manifest']
        inst = masterapi.create_apps(self.admin, op['app_id'], manifest, 1)[0]
        fit = self._m_probe_fits(inst, manifest)
        self.op_drain({})
        if self.master is None:
            return
        app = self.master.cell.apps.get(inst)
        if app is None or app.priority != 1:
            fit = None                # not loaded as asked: nothing to judge
        self.op_master_cycle({})
        if self.master is None or self.violation is not None:
            return
        app = self.master.cell.apps.get(inst)
        placed = app is not None and app.server is not None
        if fit is not None:
            self.probes['probe_fit'] = self.probes.get('probe_fit', 0) + 1
            self.nontrivial += 1
            if not placed:
                self.fail('C02:fits-but-pending:master-level',
                          'probe %s %r fits server %s (free %r by the '
                          'records) but was left pending' % (
                              inst, manifest, fit[0], fit[1]))
                return
        else:
            self.probes['probe_nofit'] = self.probes.get('probe_nofit', 0) + 1
        self.log.ev('m_probe', inst, fit[0] if fit else None, placed)
        masterapi.delete_apps(self.admin, [inst])
        self.op_drain({})
        if self.master is not None:
            self.op_master_cycle({})

    def op_c11_probe(self, _op):
        """Restart probe between cycles, allowed in its strong form when the
        only thing that changed since the last caught-up cycle is identity
        group configuration (and the clock)."""
        if self.prop != 'C11' or self.master is None:
            return
        strong = self.last_cycle_caught_up and all(
            kind in ('group', 'group_delete', 'advance', 'c11_probe',
                     'drain', 'snap', 'process', 'app_delete_quiet',
                     'apps_blacklist')
            for kind in self.ops_since_cycle) and not self.master_wrote()
        if strong:
            self.probes['restart_probes_after_group_change'] = \
                self.probes.get('restart_probes_after_group_change', 0) + 1
        self.restart_probe(strong)

    def master_wrote(self):
        """Did the master itself change placement records since the last
        cycle (it does not between cycles, except through remove_app)."""
        return self.master_client.nwrites != self.writes_at_cycle_end and \
            self.placement_digest() != self.placement_at_cycle_end

    def placement_digest(self):
        return logmod.fingerprint(sorted(
            (app, srv, json.dumps(data, sort_keys=True))
            for app, recs in self.stored_placement().items()
            for srv, data in recs))

    def op_integrity(self, _op):
        master = self.master
        if master is None:
            return
        frozen_before = {n for n, s in master.servers.items()
                         if s.state is scheduler.State.frozen}
        global _FREEZE_LOG
        cellp = self.prop in CELL_PROPS
        _FREEZE_LOG = [] if cellp else None
        down_before = set()
        if cellp:
            # (explicitly recorded as down; a missing record - never written,
            # or deleted by an admin under a master that does not know yet -
            # says nothing)
            down_before = {name for name in self.truth.srv
                           if self._stored_state(name) == 'down'}
        try:
            self._guard('check_integrity', master.check_integrity)
        except MasterDied as err:
            _FREEZE_LOG = None
            self.on_master_died(err)
            return
        if cellp:
            self.truth_apply_freezes(_FREEZE_LOG, down_before)
            _FREEZE_LOG = None
        frozen_after = {n for n, s in master.servers.items()
                        if s.state is scheduler.State.frozen}
        self.probes['pending_start_freeze'] += len(frozen_after -
                                                   frozen_before)

    # -- the same truth bookkeeping for the loop tier (engines/masterloop.py),
    #    called from wrappers around the master's own calls
    def servers_with_apps(self):
        master = self.master if self.master is not None else \
            (self.loop.master if self.loop is not None else None)
        if master is None or self.prop != 'C08':
            return {}
        return {name: sorted(srv.apps)
                for name, srv in master.servers.items() if srv.apps}

    def check_no_server_dropped(self, master, before):
        """C08: whatever happens to a server's presence while an event is
        handled, a server that is still defined (with data, under a bucket
        the master knows) stays in the model - dropping it takes its
        instances off at once, retention or not."""
        for name in sorted(before):
            if name in master.servers:
                continue
            if self._master_can_load(name) and \
                    name not in self.untold_servers:
                self.fail('C08:lost-placement-before-retention:'
                          'defined-server-dropped',
                          'server %s (still defined: %r) was dropped from '
                          'the model while an event was handled; it held %s'
                          % (name, self._zk_obj(z.path.server(name)),
                             before[name]))
                return

    def lt_process_begin(self, path, children):
        global _FREEZE_LOG
        cellp = self.prop in CELL_PROPS
        events = self.truth_before_process(path, children) if cellp else None
        self._proc_t0 = self.clock.peek()
        _FREEZE_LOG = [] if cellp else None
        return events

    def lt_process_end(self, path, children, events, done):
        global _FREEZE_LOG
        if done and self.prop in CELL_PROPS:
            self.truth_after_process(path, children, events)
        _FREEZE_LOG = None

    def lt_integrity_begin(self):
        global _FREEZE_LOG
        cellp = self.prop in CELL_PROPS
        _FREEZE_LOG = [] if cellp else None
        if not cellp:
            return set()
        return {name for name in self.truth.srv
                if self._stored_state(name) == 'down'}

    def lt_integrity_end(self, down_before, done):
        global _FREEZE_LOG
        if done and self.prop in CELL_PROPS:
            self.truth_apply_freezes(_FREEZE_LOG, down_before)
        _FREEZE_LOG = None

    def lt_new_truth(self):
        global _TRUTH
        if self.prop not in CELL_PROPS:
            return
        old_truth = self.truth
        self.truth = MasterTruth()
        self.truth.stored_state = self._stored_state
        if old_truth is not None:
            self.truth.last_not_down = dict(old_truth.last_not_down)
        _TRUTH = self.truth

    def op_tick(self, _op):
        if self.master is None:
            return
        try:
            self._guard('tick_reboots', self.master.tick_reboots)
            self._guard('check_reboot', self.master.check_reboot)
        except MasterDied as err:
            self.on_master_died(err)

    def op_restart(self, op):
        """A newly elected master starts on the stored state."""
        self.faults['master_restart'] += 1
        self.dups_before = self.duplicates()
        fault = None
        if op.get('crash_at') is not None:
            fault = {'at': op['crash_at'], 'kind': 'crash',
                     'applied': bool(op.get('applied'))}
        if self.config.get('loop'):
            if self.loop_start_master(fault=fault):
                self.after_cycle('start', False)
            return
        try:
            self.start_master(fault=fault)
        except MasterDied as err:
            # a state on which a newly elected master dies in load_model /
            # init_schedule leaves the cell without a scheduler for good
            self.master = None
            if self.intrusion_fired:
                # (not a state: something changed under the starting master;
                # the next start sees the state as it is)
                self.on_master_died(err)
                return
            self.fail('%s:master-cannot-start:%s' % (
                self.prop if self.prop in ('C09', 'C10', 'C11') else 'C09',
                err.where.split(':')[0]), '%s' % err)
            return
        except SimCrash:
            self.faults['master_crash'] += 1
            self.master = None
            self.zk.expire(self.master_client.client_id[0])
            self.check_no_duplicates('crash-in-start')
            return
        self.after_cycle('start', False)

    def op_recover(self, op):
        """C10: a newly elected master on the state a crash left behind
        must complete start-up, publish a placement equal to its model and
        pass its own integrity check."""
        fault = None
        self.dups_before = self.duplicates()
        if op.get('crash_at') is not None:
            fault = {'at': op['crash_at'], 'kind': 'crash',
                     'applied': bool(op.get('applied'))}
        try:
            self.start_master(fault=fault)
        except MasterDied as err:
            self.master = None
            self.fail('C10:recovery-died:%s' % err.where.split(':')[0],
                      '%s' % err)
            return
        except SimCrash:
            self.faults['master_crash'] += 1
            self.master = None
            self.zk.expire(self.master_client.client_id[0])
            self.check_no_duplicates('crash-in-recovery')
            return
        if not self.check_published('recovery'):
            return
        try:
            self._guard('check_placement_integrity',
                        self.master.check_placement_integrity)
        except MasterDied as err:
            self.master = None
            self.fail('C10:recovery-integrity-check-failed', '%s' % err)

    def on_master_died(self, err):
        """exit_on_unhandled: the process is gone and, as in production, a
        new master is elected next.  A death is not by itself a violation of
        C09/C11 (check_placement_integrity kills the master on purpose when
        records vanished under it); what is demanded is that the next start
        publishes a placement equal to its model.  C10 forbids a death of the
        *recovering* master (op_recover)."""
        self.master = None
        where = err.where.split(':')[0]
        self.probes['master_died'] = self.probes.get('master_died', 0) + 1
        self.died[where] = self.died.get(where, 0) + 1
        self.log.ev('master-died', err.where, repr(err.err))

    def caught_up(self):
        """True if the master has processed everything that happened."""
        if self.loop is not None:
            return self.loop_caught_up()
        if self.master is None or self.queue:
            return False
        for path in WATCHED:
            node = self.zk.nodes.get(path)
            if node is not None and \
                    self.seen_cversion.get(path) != node.cversion:
                return False
        if self.zk.children(z.EVENTS):
            return False
        return True

    # ------------------------------------------------------------------
    # oracles
    def stored_placement(self, zk=None):
        """{app: [(server, data dict)]} from /placement/*/*."""
        zk = zk or self.zk
        out = {}
        for srv in zk.children(z.PLACEMENT) or []:
            for app in zk.children(z.path.placement(srv)) or []:
                raw = zk.nodes[z.path.placement(srv, app)].data
                try:
                    data = json.loads(raw.decode()) if raw else {}
                except ValueError:
                    data = {'_raw': repr(raw)}
                out.setdefault(app, []).append((srv, data))
        return out

    def duplicates(self):
        stored = self.stored_placement()
        return {app for app, recs in stored.items() if len(recs) > 1}

    def check_no_duplicates(self, when):
        if self.prop in CELL_PROPS:
            return True               # (C10's clause; not theirs)
        stored = self.stored_placement()
        for app in sorted(stored):
            if len(stored[app]) > 1 and app not in self.dups_before:
                self.fail('C10:placed-twice:%s' % when,
                          '%s has placement records under %s' % (
                              app, [s for s, _d in stored[app]]))
                return False
        return True

    def check_published(self, when):
        """C09: stored placement == model."""
        master = self.master
        stored = self.stored_placement()
        prop = self.prop if self.prop in ('C09', 'C10') else 'C09'
        for app in sorted(master.cell.apps):
            obj = master.cell.apps[app]
            entries = stored.get(app, [])
            if obj.server is None:
                if entries:
                    self.fail('%s:entry-for-pending:%s' % (prop, when),
                              '%s is pending but has placement records under '
                              '%s' % (app, [s for s, _d in entries]))
                    return False
                continue
            self.probes['placements_checked'] += 1
            if len(entries) != 1:
                self.fail('%s:%s:%s' % (
                    prop, 'entry-missing' if not entries else 'placed-twice',
                    when),
                          '%s is on %s in the model; records under %s' % (
                              app, obj.server, [s for s, _d in entries]))
                return False
            srv, data = entries[0]
            if srv != obj.server:
                self.fail('%s:entry-under-wrong-server:%s' % (prop, when),
                          '%s: model %s, stored under %s' % (app, obj.server,
                                                             srv))
                return False
            if data.get('identity') != obj.identity:
                self.fail('%s:stale-identity:%s' % (prop, when),
                          '%s on %s: model identity %r, stored %r' % (
                              app, srv, obj.identity, data.get('identity')))
                return False
            if data.get('expires') != obj.placement_expiry:
                self.fail('%s:stale-expires:%s' % (prop, when),
                          '%s on %s: model expiry %r, stored %r' % (
                              app, srv, obj.placement_expiry,
                              data.get('expires')))
                return False
        # the model's other view: what each server of the master's table
        # lists must be the instance's own server (the publication cannot
        # equal a model whose two views disagree)
        for sname in sorted(master.servers):
            for app in sorted(master.servers[sname].apps):
                obj = master.cell.apps.get(app)
                if obj is None or obj.server != sname:
                    self.fail('%s:model-views-disagree:%s' % (prop, when),
                              'server %s lists %s, whose own server is %r '
                              '(records under %s)' % (
                                  sname, app,
                                  obj.server if obj else 'not scheduled',
                                  [s for s, _d in stored.get(app, [])]))
                    return False
        for app in sorted(stored):
            if app not in master.cell.apps:
                self.fail('%s:entry-for-unscheduled:%s' % (prop, when),
                          '%s is not scheduled but has placement records '
                          'under %s' % (app, [s for s, _d in stored[app]]))
                return False
        return True

    def after_cycle(self, when, caught_up):
        master = self.master
        state = sorted((n, a.server, a.identity)
                       for n, a in master.cell.apps.items())
        self.fps.append(logmod.fingerprint(state))
        self.log.ev(when, state)
        if self.prop == 'C08':
            if caught_up and when == 'cycle':
                self.restart_probe_c08()
        elif self.prop in CELL_PROPS:
            pass
        elif self.prop in ('C09', 'C10'):
            self.check_published(when)
        elif self.prop == 'C11':
            self.restart_probe(caught_up and when == 'cycle')
        self.dirty_since_cycle = False
        self.ops_since_cycle = []
        self.last_cycle_caught_up = bool(caught_up and when == 'cycle')
        self.writes_at_cycle_end = self.master_client.nwrites
        self.placement_at_cycle_end = self.placement_digest() \
            if self.prop == 'C11' else None

    def restart_probe_c08(self):
        """C08 across a fail-over: a fresh master's load_model() on a copy of
        the tree (no cycle is computed) must keep every instance recorded
        under a frozen server, and under a server that is down, on that
        server - whatever the retention time says is the next cycle's
        business.  Only what the running master itself published right now
        is judged (caught-up cycle, one record per instance)."""
        old = self.master
        zk2 = self.zk.clone_tree()
        stored = self.stored_placement(zk2)
        scheduled_before = set(zk2.children(z.SCHEDULED) or [])
        facts = {}
        for app, recs in stored.items():
            if len(recs) != 1:
                continue
            srv = recs[0][0]
            pres = zk2.nodes.get(z.path.server_presence(srv))
            entry = zk2.nodes.get(z.path.placement(srv, app))
            facts[app] = (srv, pres.ctime if pres else None, entry.ctime)
        if not facts:
            return
        client = zk2.connect('probe-master')
        probe = mastermod.Master(zkbackend.ZkBackend(client), 'cell')
        try:
            self._guard('probe-load', probe.load_model)
        except MasterDied:
            return                      # (C09/C11 judge a start that dies)
        self.probes['c08_restart_probes'] = \
            self.probes.get('c08_restart_probes', 0) + 1
        for app in sorted(facts):
            srv, pres_ctime, entry_ctime = facts[app]
            oldapp = old.cell.apps.get(app)
            if oldapp is None or oldapp.server != srv or \
                    app not in scheduled_before:
                continue
            if not self.server_loadable(srv):
                continue
            state = self._stored_state(srv)
            if pres_ctime is not None and pres_ctime <= entry_ctime:
                if state != 'frozen':
                    continue            # a healthy up server: C11
                sig = 'C08:frozen-server-lost-instance:at-restart'
            elif pres_ctime is None:
                manifest = self._zk_obj(z.path.scheduled(app)) or {}
                if manifest.get('lease') or manifest.get('schedule_once'):
                    # re-evaluated when the server's presence is not the
                    # one the instance was placed under
                    continue
                sig = 'C08:lost-placement-at-restart:server-down'
            else:
                continue                # server restarted since
            self.probes['c08_restart_entries'] = \
                self.probes.get('c08_restart_entries', 0) + 1
            obj = probe.cell.apps.get(app)
            if obj is None or obj.server != srv:
                self.fail(sig + ':master-level',
                          '%s recorded under %s (recorded state %s); a '
                          'restarted master has it on %r before any cycle' % (
                              app, srv, state,
                              obj.server if obj else 'no such app'))
                return

    def restart_probe(self, strong):
        """C11: a fresh master's load_model() on a copy of the tree."""
        self.probes['restart_probes'] += 1
        old = self.master
        zk2 = self.zk.clone_tree()
        stored = self.stored_placement(zk2)
        scheduled_before = set(zk2.children(z.SCHEDULED) or [])
        ctimes = {}
        for app, recs in stored.items():
            for srv, _data in recs:
                pres = zk2.nodes.get(z.path.server_presence(srv))
                entry = zk2.nodes.get(z.path.placement(srv, app))
                ctimes[(srv, app)] = (pres.ctime if pres else None,
                                      entry.ctime)
        client = zk2.connect('probe-master')
        probe = mastermod.Master(zkbackend.ZkBackend(client), 'cell')
        try:
            self._guard('probe-load', probe.load_model)
        except MasterDied as err:
            self.fail('C11:load-model-died:%s' % err.where.split(':')[0],
                      '%s' % err)
            return
        self.nontrivial += 1 if stored else 0
        # weak form (always): nothing is placed that is not recorded
        for app in sorted(probe.cell.apps):
            obj = probe.cell.apps[app]
            if obj.server is None:
                continue
            recs = [s for s, _d in stored.get(app, [])]
            if obj.server not in recs:
                self.fail('C11:placed-without-record',
                          '%s placed on %s by load_model; records: %s' % (
                              app, obj.server, recs))
                return
        if not strong:
            return
        self.probes['restart_probes_strong'] += 1
        for app in sorted(stored):
            if len(stored[app]) != 1:
                continue
            srv, data = stored[app][0]
            pres_ctime, entry_ctime = ctimes[(srv, app)]
            if pres_ctime is None:
                continue          # server not present
            if not self.server_loadable(srv):
                # the server's definition is gone (or never completed): it
                # is not a server of the cell any more, whatever is still
                # recorded under its name
                continue
            if pres_ctime > entry_ctime:
                continue          # server restarted since the placement
            oldapp = old.cell.apps.get(app)
            if oldapp is None or oldapp.server != srv:
                continue          # not what the old master published
            if app not in scheduled_before:
                # unscheduled in the meantime (e.g. by the cycle's own
                # _unschedule_evicted): nothing to reload
                continue
            self.probes['entries_strong'] += 1
            obj = probe.cell.apps.get(app)
            if obj is None or obj.server != srv:
                self.fail('C11:recorded-placement-not-reloaded',
                          '%s recorded under healthy server %s; reloaded '
                          'model has it on %r' % (
                              app, srv, obj.server if obj else 'no such app'))
                return
            if obj.identity != data.get('identity'):
                self.fail('C11:identity-not-reloaded',
                          '%s on %s: recorded identity %r, reloaded %r' % (
                              app, srv, data.get('identity'), obj.identity))
                return
            if obj.placement_expiry != data.get('expires'):
                self.fail('C11:expiry-not-reloaded',
                          '%s on %s: recorded expiry %r, reloaded %r' % (
                              app, srv, data.get('expires'),
                              obj.placement_expiry))
                return


# ---------------------------------------------------------------------------
# generation

MEM_SPELL = [lambda m: '%dM' % m, lambda m: '%dK' % (m * 1024),
             lambda m: ('%dG' % (m // 1024)) if m % 1024 == 0 else '%dM' % m,
             lambda m: '%dm' % m, lambda m: ' %dk ' % (m * 1024)]
# capacities only: spellings that are not a whole number of megabytes (the
# declared capacity is then a fraction of a megabyte above what the scheduler
# may hand out); demands stay whole-megabyte quantities
CAP_SPELL = MEM_SPELL + [
    lambda m: '%dK' % (m * 1024 + 500),
    lambda m: '%dK' % (m * 1024 + 1023),
    lambda m: '%dMB' % m,
    lambda m: '%dKB' % (m * 1000 + 1),
    lambda m: ('%dGB' % (m // 256)) if m >= 256 else '%dMB' % m,
    lambda m: '%dmb' % m, lambda m: '%dMb' % m, lambda m: '%dkB' % (m * 1000),
]
CPU_SPELL = [lambda c: '%d%%' % c, lambda c: '%d' % c, lambda c: c]


class Generator:
    def __init__(self, config, streams):
        # (own copy: the limits an affinity declares may be redeclared
        # between generations of its instances, see g_relimit_generation)
        self.config = dict(config)
        self.config['aff_limits'] = {
            k: dict(v) for k, v in config['aff_limits'].items()}
        self.rng = streams.get('gen')
        self.irng = streams.get('intrude')
        self.nsrv = len(config['servers'])
        self.follow = []
        self.weights = [(k, w * config['wmul'].get(k, 1.0))
                        for k, w in OP_WEIGHTS]
        if config.get('m_probe_weight'):
            self.weights = [(k, config['m_probe_weight'] if k == 'm_probe'
                             else (4 if k == 'trait_gained_then_probe'
                                   else w)) for k, w in self.weights]

    def next_op(self, world):
        op = self._next_op(world)
        p_intrude = self.config.get('p_intrude')
        if p_intrude and op['op'] in ('process', 'master_cycle',
                                      'restart') and \
                op.get('crash_at') is None and not op.get('intrude') and \
                self.irng.random() < p_intrude:
            inner = self._intrusion(world)
            if op['op'] == 'restart':
                # (a start makes hundreds of calls; the harness's record of
                # what a starting master was shown is taken after the load,
                # so only the properties that need none of it)
                if world.prop in CELL_PROPS:
                    inner = None
                at = self.irng.randint(1, 150)
            else:
                at = self.irng.choice([1, 2, 3, 4, 5, 6, 8, 10, 14, 20])
            if inner is not None:
                op = dict(op, intrude={'at': at, 'op': inner})
        return op

    def _intrusion(self, world):
        """Something another actor does while the master is inside a step
        (own random stream: the histories of runs without intrusions do not
        change)."""
        irng = self.irng
        kind = irng.choice(['presence_down', 'presence_down', 'presence_up',
                            'app_delete_quiet'])
        if kind == 'app_delete_quiet' and world.prop in CELL_PROPS:
            # (whether the master read the manifest before it went is
            # something the harness's record of what the master was shown
            # cannot tell)
            kind = 'presence_down'
        if kind == 'app_delete_quiet':
            names = sorted(self._scheduled(world))
            return {'op': kind, 'name': irng.choice(names)} if names else None
        names = sorted(self._servers(world))
        present = [n for n in names if world.zk.nodes.get(
            z.path.server_presence(n)) is not None]
        pool = present if kind == 'presence_down' else \
            [n for n in names if n not in present]
        return {'op': kind, 'name': irng.choice(pool)} if pool else None

    def _next_op(self, world):
        if self.follow:
            item = self.follow.pop(0)
            if 'gen' in item:
                # a scenario step that is decided when its turn comes
                extra = {k: v for k, v in item.items() if k != 'gen'}
                return getattr(self, 'g_' + item['gen'])(
                    world, staged=True, **extra) or {'op': 'drain'}
            return item
        for _ in range(30):
            kind = rngmod.weighted(self.rng, self.weights)
            op = getattr(self, 'g_' + kind)(world)
            if op is not None:
                return op
        return {'op': 'drain'}

    def _scheduled(self, world):
        return world.zk.children(z.SCHEDULED) or []

    def _servers(self, world):
        return world.zk.children(z.SERVERS) or []

    def g_app_create(self, world):
        rng = self.rng
        cfg = self.config
        proid = rng.choice(cfg['proids'])
        app = rng.choice(['web', 'db', 'job'])
        mem = rng.randint(1, cfg['dem_hi']) * 256
        manifest = {
            'memory': rng.choice(MEM_SPELL)(mem),
            'cpu': rng.choice(CPU_SPELL)(rng.randint(1, cfg['dem_hi']) * 10),
            'disk': rng.choice(MEM_SPELL)(rng.randint(1, cfg['dem_hi']) * 256),
            'affinity': '%s.%s' % (proid, app),
        }
        limits = cfg['aff_limits'].get(manifest['affinity'])
        if limits:
            manifest['affinity_limits'] = limits
        if cfg['retention'] and rng.random() < 0.5:
            manifest['data_retention_timeout'] = rng.choice(
                ['0s', '30s', '5m', '1h'])
        if cfg['leases'] and rng.random() < 0.3:
            manifest['lease'] = rng.choice(['1h', '12h', '1d', '3d', '20d'])
        if cfg['group_names'] and rng.random() < 0.4:
            manifest['identity_group'] = rng.choice(cfg['group_names'])
        pool = cfg['traits'] + cfg.get('node_traits', [])
        if pool and rng.random() < 0.25:
            manifest['traits'] = [rng.choice(pool + ['nosuch'])]
        if rng.random() < 0.1:
            manifest['schedule_once'] = True
        if rng.random() < 0.3:
            manifest['priority'] = rng.choice([0, 1, 10, 50, 100])
        return {'op': 'app_create', 'app_id': '%s.%s' % (proid, app),
                'manifest': manifest, 'count': rng.choice([1, 1, 1, 2, 3])}

    def g_m_probe(self, world):
        rng = self.rng
        cfg = self.config
        proid = rng.choice(cfg['proids'])
        app = rng.choice(['web', 'db', 'job'])
        manifest = {
            'memory': rng.choice(MEM_SPELL)(rng.randint(1, cfg['dem_hi']) *
                                            256),
            'cpu': rng.choice(CPU_SPELL)(rng.randint(1, cfg['dem_hi']) * 10),
            'disk': rng.choice(MEM_SPELL)(rng.randint(1, cfg['dem_hi']) *
                                          256),
            'affinity': '%s.%s' % (proid, app),
            'priority': 1,
        }
        limits = cfg['aff_limits'].get(manifest['affinity'])
        if limits:
            manifest['affinity_limits'] = limits
        pool = cfg['traits'] + cfg.get('node_traits', [])
        if pool and rng.random() < 0.3:
            manifest['traits'] = [rng.choice(pool)]
        names = self._servers(world)
        if names and rng.random() < 0.6:
            # cut to what one particular server has left, so that few other
            # servers (often none) can take it
            free = world.m_free(rng.choice(names))
            if free and all(f >= 0 for f in free) and free[0] and free[2]:
                manifest['memory'] = '%dM' % free[0]
                manifest['cpu'] = '%d%%' % free[1]
                manifest['disk'] = '%dM' % free[2]
        return {'op': 'm_probe', 'app_id': '%s.%s' % (proid, app),
                'manifest': manifest}

    def g_app_delete(self, world):
        names = self._scheduled(world)
        return {'op': 'app_delete', 'name': self.rng.choice(names)} \
            if names else None

    def g_app_prio(self, world):
        names = self._scheduled(world)
        if not names:
            return None
        return {'op': 'app_prio', 'name': self.rng.choice(names),
                'prio': self.rng.choice([0, 1, 10, 50, 100])}

    def g_srv_set(self, world):
        rng = self.rng
        cfg = self.config
        names = self._servers(world)
        if names and rng.random() < 0.75:
            name = rng.choice(names)
        else:
            if len(names) >= 10:
                return None
            self.nsrv += 1
            name = 's%d' % self.nsrv
        spec = server_spec(rng, cfg, name)
        spec['op'] = 'srv_set'
        old = world._zk_obj(z.path.server(name)) if name in names else None
        if old and old.get('parent') and rng.random() < 0.15:
            # only the traits the server reports change (one dropped or one
            # added), e.g. after a node restart
            traits = list(old.get('traits') or [])
            pool = [t for t in cfg['traits'] + cfg.get('node_traits', [])
                    if t not in traits]
            if traits and (not pool or rng.random() < 0.6):
                traits.remove(rng.choice(traits))
            elif pool:
                traits.append(rng.choice(pool))
            spec = {'op': 'srv_set', 'name': name, 'parent': old['parent'],
                    'partition': old.get('partition') or '_default',
                    'memory': old.get('memory'), 'cpu': old.get('cpu'),
                    'disk': old.get('disk'), 'traits': traits,
                    'up_since': old.get('up_since')}
        elif old and old.get('parent') and rng.random() < 0.3:
            # only the server's place in the topology changes
            racks = [r for _p, rs in cfg['topology'] for r in rs
                     if r != old['parent']]
            if racks:
                spec = {'op': 'srv_set', 'name': name,
                        'parent': rng.choice(racks),
                        'partition': old.get('partition') or '_default',
                        'memory': old.get('memory'), 'cpu': old.get('cpu'),
                        'disk': old.get('disk'),
                        'traits': old.get('traits') or [],
                        'up_since': old.get('up_since')}
        return spec

    def g_srv_delete(self, world):
        names = self._servers(world)
        if not names:
            return None
        if self.rng.random() < 0.35:
            self.follow.append({'op': 'servers_reload_all'})
            if self.rng.random() < 0.7:
                # ... handled, and the next cycle (whose crash points the
                # quick tier of C10 then enumerates) re-places the instances
                self.follow.extend([{'op': 'drain'},
                                    {'op': 'master_cycle', 'focus': True}])
            stored = world.stored_placement()
            busy = sorted({s for recs in stored.values() for s, _d in recs
                           if s in names})
            pool = busy if busy and self.rng.random() < 0.7 else names
            return {'op': 'srv_delete', 'name': self.rng.choice(pool),
                    'raw': True}
        return {'op': 'srv_delete', 'name': self.rng.choice(names)}

    def g_servers_reload_all(self, world):
        return {'op': 'servers_reload_all'}

    def g_presence_up(self, world):
        down = [n for n in self._servers(world)
                if world.zk.nodes.get(z.path.server_presence(n)) is None]
        return {'op': 'presence_up', 'name': self.rng.choice(down)} \
            if down else None

    def g_presence_down(self, world):
        up = world.zk.children(z.SERVER_PRESENCE) or []
        return {'op': 'presence_down', 'name': self.rng.choice(up)} \
            if up else None

    def g_allocations(self, world):
        return {'op': 'allocations',
                'allocations': gen_allocations(self.rng, self.config)}

    def g_group(self, world):
        if not self.config['group_names']:
            return None
        # bias: a fail-over right after a membership change
        if self.rng.random() < 0.3:
            self.follow.append({'op': 'restart'})
        return {'op': 'group', 'name': self.rng.choice(
            self.config['group_names']),
                'count': self.rng.choice([0, 1, 2, 3, 5])}

    def g_group_delete(self, world):
        names = world.zk.children(z.IDENTITY_GROUPS) or []
        return {'op': 'group_delete', 'name': self.rng.choice(names)} \
            if names else None

    def g_srv_state(self, world):
        names = self._servers(world)
        if not names:
            return None
        name = self.rng.choice(names)
        apps = world.zk.children(z.path.placement(name)) or []
        state = self.rng.choice(['frozen', 'frozen', 'up', 'down'])
        sel = None
        if state == 'frozen' and apps and self.rng.random() < 0.5:
            sel = self.rng.sample(apps, self.rng.randint(1, min(2, len(apps))))
        return {'op': 'srv_state', 'name': name, 'state': state, 'apps': sel}

    def g_apps_blacklist(self, world):
        pats = []
        for proid in self.config['proids']:
            if self.rng.random() < 0.3:
                # (also: entries that match nothing - a prefix of a name,
                # the proid alone - and other glob forms)
                pats.append('%s.%s' % (proid, self.rng.choice(
                    ['*', 'web', 'db', 'web', 'db', 'we', 'd', 'jo',
                     '?eb', 'j*', '[dw]b'])) if self.rng.random() < 0.9
                    else proid)
        return {'op': 'apps_blacklist', 'patterns': pats}

    def g_blackout_near_miss(self, world):
        """Blackout entries that come close to the name of a running
        application without matching it."""
        stored = sorted(world.stored_placement())
        if not stored:
            return None
        base = self.rng.choice(stored).split('#')[0]
        proid = base.split('.')[0]
        near = [base[:-1], base + 'x', proid, base + '#*',
                base.replace('.', '?', 1) + '?', base[:-1] + '[!%s]' % base[-1]]
        pats = self.rng.sample(near, self.rng.randint(1, 3))
        self.follow.extend([{'op': 'drain'}, {'op': 'master_cycle'}])
        return {'op': 'apps_blacklist', 'patterns': pats}

    def g_blackout_then_failover(self, world):
        """An application with placed instances (members of an identity
        group if there are any) is blacked out and the master fails over
        before it has run a cycle: what is recorded is reloaded as it is."""
        stored = world.stored_placement()
        cands = sorted(a for a, recs in stored.items() if len(recs) == 1)
        if not cands:
            return None
        grouped = [a for a in cands if (world._zk_obj(z.path.scheduled(a))
                                        or {}).get('identity_group')]
        name = self.rng.choice(grouped or cands)
        self.follow.extend([{'op': 'c11_probe'}])
        return {'op': 'apps_blacklist',
                'patterns': [self.rng.choice([name.split('#')[0],
                                              name.split('.')[0] + '.*'])]}

    def g_trait_gained_then_probe(self, world):
        """A loaded server comes back reporting one trait more (nothing
        else changes); then an instance that requires exactly that trait is
        submitted at rest (C02)."""
        cfg = self.config
        pool = cfg['traits'] + cfg.get('node_traits', [])
        cands = []
        for sname in self._servers(world):
            data = world._zk_obj(z.path.server(sname)) or {}
            missing = [t for t in pool if t not in (data.get('traits') or [])]
            if data.get('parent') and missing and \
                    world.zk.nodes.get(z.path.server_presence(sname)):
                cands.append((sname, data, missing))
        if not cands:
            return None
        sname, old, missing = self.rng.choice(cands)
        gained = self.rng.choice(missing)
        proid = self.rng.choice(cfg['proids'])
        manifest = {'memory': '256M', 'cpu': '10%', 'disk': '256M',
                    'affinity': '%s.job' % proid, 'priority': 1,
                    'traits': [gained]}
        limits = cfg['aff_limits'].get(manifest['affinity'])
        if limits:
            manifest['affinity_limits'] = limits
        follow = [{'op': 'drain'}, {'op': 'master_cycle'}]
        quiet = self.rng.random() < 0.5
        if quiet:
            # the node restarted: it rewrites its record itself and its
            # presence goes and comes back
            follow = [{'op': 'drain'},
                      {'op': 'presence_up', 'name': sname}] + follow
        follow.append({'op': 'm_probe', 'app_id': '%s.job' % proid,
                       'manifest': manifest})
        spec = {'op': 'srv_set', 'name': sname, 'parent': old['parent'],
                'partition': old.get('partition') or '_default',
                'memory': old.get('memory'), 'cpu': old.get('cpu'),
                'disk': old.get('disk'),
                'traits': list(old.get('traits') or []) + [gained],
                'up_since': old.get('up_since')}
        if quiet:
            self.follow.extend([dict(spec, quiet=True)] + follow)
            return {'op': 'presence_down', 'name': sname}
        self.follow.extend(follow)
        return spec

    def g_blackout_server(self, world):
        names = self._servers(world)
        if not names:
            return None
        name = self.rng.choice(names)
        cur = world.zk.nodes.get(z.path.blackedout_server(name)) is not None
        return {'op': 'blackout_server', 'name': name, 'flag': not cur}

    def g_cell_bucket(self, world):
        pods = [p for p, _r in self.config['topology']]
        name = self.rng.choice(pods)
        present = world.zk.nodes.get(z.path.cell(name)) is not None
        if present and self.rng.random() < 0.5:
            # bias: a fail-over while the detached servers still hold records
            self.follow.extend(self.rng.choice([
                [{'op': 'restart'}],
                [{'op': 'drain'}, {'op': 'restart'}],
                [{'op': 'drain'}, {'op': 'master_cycle'}]]))
        return {'op': 'cell_bucket', 'name': name, 'present': not present}

    def g_bucket_deleted_failover(self, world):
        """A rack's definition is deleted while its servers hold instances;
        the running master does not care, the next one cannot load those
        servers.  Later the rack is defined again."""
        racks = {}
        for pod, rs in self.config['topology']:
            for rack in rs:
                racks[rack] = pod
        stored = world.stored_placement()
        busy = set()
        for recs in stored.values():
            for srv, _d in recs:
                data = world._zk_obj(z.path.server(srv)) or {}
                if data.get('parent') in racks:
                    busy.add(data['parent'])
        cands = sorted(r for r in busy
                       if world.zk.nodes.get(z.path.bucket(r)) is not None)
        if not cands:
            gone = sorted(r for r in racks
                          if world.zk.nodes.get(z.path.bucket(r)) is None)
            if not gone:
                return None
            rack = self.rng.choice(gone)
            return {'op': 'bucket_create', 'name': rack, 'parent': racks[rack]}
        rack = self.rng.choice(cands)
        self.follow.extend(self.rng.choice([
            [{'op': 'restart', 'focus': True}],
            [{'op': 'drain'}, {'op': 'master_cycle'},
             {'op': 'restart', 'focus': True}]]))
        self.follow.extend([{'op': 'drain'}, {'op': 'master_cycle'},
                            {'op': 'bucket_create', 'name': rack,
                             'parent': racks[rack]}])
        if self.rng.random() < 0.6:
            self.follow.append({'op': 'servers_reload_all'})
        return {'op': 'bucket_delete', 'name': rack}

    def g_zombie_write(self, world):
        stored = world.stored_placement()
        apps = sorted(a for a, recs in stored.items() if len(recs) == 1)
        servers = world.zk.children(z.PLACEMENT) or []
        if not apps or len(servers) < 2:
            return None
        app = self.rng.choice(apps)
        cur, data = stored[app][0]
        others = [x for x in servers if x != cur]
        if not others:
            return None
        return {'op': 'zombie_write', 'app': app,
                'server': self.rng.choice(others), 'data': data}

    def g_running(self, world):
        stored = sorted(world.stored_placement())
        return {'op': 'running', 'name': self.rng.choice(stored)} \
            if stored else None

    def g_advance(self, world):
        return {'op': 'advance', 'dt': self.rng.choice(
            [0.5, 2.0, 29.0, 31.0, 299.0, 301.0, 3600.0, DAY, DAY * 3])}

    def g_snap(self, world):
        return {'op': 'snap', 'path': self.rng.choice(WATCHED)}

    def g_process(self, world):
        return {'op': 'process'} if world.queue or world.loop else None

    def g_drain(self, world):
        return {'op': 'drain'}

    def g_master_cycle(self, world):
        if self.config.get('p_cycle_crash') and \
                self.rng.random() < self.config['p_cycle_crash']:
            # the master stops in the middle of publishing this cycle (the
            # next op is the newly elected master's start)
            return {'op': 'master_cycle',
                    'crash_at': self.rng.randint(1, 6),
                    'applied': self.rng.random() < 0.5}
        return {'op': 'master_cycle'}

    def g_integrity(self, world):
        return {'op': 'integrity'}

    def g_tick(self, world):
        return {'op': 'tick'}

    def g_restart(self, world):
        return {'op': 'restart'}

    # -- targeted multi-op scenarios (faults placed inside in-flight state)
    def g_failover_after_down(self, world):
        """A server with instances goes down, its retention passes, and the
        master fails over before it ran another cycle."""
        stored = world.stored_placement()
        servers = sorted({s for recs in stored.values() for s, _d in recs
                          if world.zk.nodes.get(z.path.server_presence(s))})
        if not servers:
            return None
        name = self.rng.choice(servers)
        self.follow.extend([
            {'op': 'advance', 'dt': self.rng.choice([31.0, 301.0, 3601.0])},
            {'op': 'restart'}])
        return {'op': 'presence_down', 'name': name}

    def g_undefined_server_failover(self, world):
        """The definition of a server that holds instances is deleted (only
        /servers/<name>) and the master fails over before it hears of it:
        the new master does not know the server its predecessor placed on."""
        stored = world.stored_placement()
        servers = sorted({s for recs in stored.values() for s, _d in recs
                          if world.zk.nodes.get(z.path.server(s))})
        if not servers:
            return None
        self.follow.append({'op': 'restart', 'focus': True})
        return {'op': 'srv_delete', 'name': self.rng.choice(servers),
                'raw': True}

    def g_reparent_to_undefined_rack(self, world):
        """A server that holds instances is moved, in its record, to a rack
        that is not defined yet (the rack's definition arrives later).  The
        unchanged master cannot handle that 'servers' event at all (it
        stops; the next master does not load the server and cleans up)."""
        stored = world.stored_placement()
        servers = sorted({s for recs in stored.values() for s, _d in recs
                          if world.zk.nodes.get(z.path.server(s))})
        if not servers:
            return None
        name = self.rng.choice(servers)
        data = world._zk_obj(z.path.server(name)) or {}
        if not data.get('parent'):
            return None
        pods = [p for p, _r in self.config['topology']]
        self.nlate = getattr(self, 'nlate', 0) + 1
        rack = 'rack:late%d' % self.nlate
        spec = {'op': 'srv_set', 'name': name, 'parent': rack,
                'partition': data.get('partition') or '_default',
                'memory': data.get('memory'), 'cpu': data.get('cpu'),
                'disk': data.get('disk'), 'traits': data.get('traits') or [],
                'up_since': data.get('up_since')}
        self.follow.extend([
            {'op': 'drain'}, {'op': 'master_cycle', 'focus': True},
            {'op': 'bucket_create', 'name': rack,
             'parent': self.rng.choice(pods)},
            {'op': 'drain'}, {'op': 'master_cycle'}])
        return spec

    def g_detach_then_touch_server(self, world, staged=False):
        """A top level bucket with loaded servers is taken out of the cell,
        a cycle moves the instances, then one of the detached servers is
        redefined or deleted, and another cycle runs."""
        stored = world.stored_placement()
        per_pod = {}
        for pod, racks in self.config['topology']:
            if world.zk.nodes.get(z.path.cell(pod)) is None:
                continue
            for recs in stored.values():
                for srv, _d in recs:
                    data = world._zk_obj(z.path.server(srv)) or {}
                    if data.get('parent') in racks:
                        per_pod.setdefault(pod, set()).add(srv)
        attached = [p for p, _r in self.config['topology']
                    if world.zk.nodes.get(z.path.cell(p)) is not None]
        if len(attached) < 2:
            return None               # the instances need somewhere to go
        if not per_pod:
            if staged:
                return None
            proid = self.rng.choice(self.config['proids'])
            self.follow.extend([{'op': 'drain'}, {'op': 'master_cycle'},
                                {'gen': 'detach_then_touch_server'}])
            manifest = {'memory': '256M', 'cpu': '10%', 'disk': '256M',
                        'affinity': '%s.web' % proid}
            # (instances of one affinity share their limits)
            limits = self.config['aff_limits'].get(manifest['affinity'])
            if limits:
                manifest['affinity_limits'] = limits
            return {'op': 'app_create', 'app_id': '%s.web' % proid,
                    'manifest': manifest,
                    'count': self.rng.randint(2, 4)}
        # prefer a server whose instances have at least two other places to
        # go (up servers of its partition in pods that stay attached)
        rack_pod = {r: p for p, rs in self.config['topology'] for r in rs}

        def elsewhere(pod, srv):
            mine = world._zk_obj(z.path.server(srv)) or {}
            n = 0
            for other in self._servers(world):
                data = world._zk_obj(z.path.server(other)) or {}
                opod = rack_pod.get(data.get('parent'))
                if other != srv and opod in attached and opod != pod and \
                        (data.get('partition') or '_default') == \
                        (mine.get('partition') or '_default') and \
                        world.zk.nodes.get(
                            z.path.server_presence(other)) is not None:
                    n += 1
            return n
        pairs = [(p, s_) for p in sorted(per_pod) for s_ in sorted(per_pod[p])]
        roomy = [(p, s_) for p, s_ in pairs if elsewhere(p, s_) >= 2]
        pod, srv = self.rng.choice(roomy or pairs)
        touch = {'op': 'srv_delete', 'name': srv}
        if self.rng.random() < 0.5:
            touch = server_spec(self.rng, self.config, srv)
            touch['op'] = 'srv_set'
        self.follow.extend([
            {'op': 'drain'}, {'op': 'master_cycle'}, touch, {'op': 'drain'},
            {'op': 'master_cycle', 'focus': True},
            {'op': 'cell_bucket', 'name': pod, 'present': True}])
        return {'op': 'cell_bucket', 'name': pod, 'present': False}

    def g_reparent_loaded(self, world, staged=False):
        """Only the place of a loaded server in the topology changes (what
        masterapi.update_server_parent writes): its instances are put back
        one by one, under the limits of the new rack and pod.  Preferably a
        move into a rack or pod that already holds instances of an affinity
        the server carries, with a limit declared at that level."""
        stored = world.stored_placement()
        pod_of = {r: p for p, rs in self.config['topology'] for r in rs}
        on = {}                       # server -> [affinity, ...]
        for app, recs in stored.items():
            man = world._zk_obj(z.path.scheduled(app)) or {}
            for srv, _d in recs:
                on.setdefault(srv, []).append(
                    (man.get('affinity'), man.get('affinity_limits') or {}))
        rack_of = {}
        for srv in on:
            data = world._zk_obj(z.path.server(srv)) or {}
            if data.get('parent'):
                rack_of[srv] = data['parent']
        good, any_ = [], []
        for srv in sorted(rack_of):
            for rack in sorted(pod_of):
                if rack == rack_of[srv] or \
                        world.zk.nodes.get(z.path.bucket(rack)) is None:
                    continue
                any_.append((srv, rack))
                for aff, limits in on[srv]:
                    for other in sorted(rack_of):
                        if other == srv:
                            continue
                        same_rack = rack_of[other] == rack
                        same_pod = pod_of.get(rack_of[other]) == \
                            pod_of.get(rack)
                        if any(a == aff for a, _l in on[other]) and (
                                (same_rack and 'rack' in limits) or
                                (same_pod and 'pod' in limits and
                                 pod_of.get(rack_of[srv]) != pod_of.get(rack))):
                            good.append((srv, rack))
        if not good and not staged:
            # set the stage: a few small instances of an affinity that
            # declares a rack or pod limit, placed, then the move
            limited = sorted(a for a, l in self.config['aff_limits'].items()
                             if 'rack' in l or 'pod' in l)
            if limited:
                aff = self.rng.choice(limited)
                lim = self.config['aff_limits'][aff]
                fill = min(lim[k] for k in ('rack', 'pod') if k in lim) + 1
                self.follow.extend([{'op': 'drain'}, {'op': 'master_cycle'},
                                    {'gen': 'reparent_loaded'}])
                return {'op': 'app_create', 'app_id': aff, 'manifest': {
                    'memory': '256M', 'cpu': '10%', 'disk': '256M',
                    'affinity': aff,
                    'affinity_limits': self.config['aff_limits'][aff]},
                        'count': max(2, min(5, fill))}
        pool = good if good and self.rng.random() < 0.8 else any_
        if not pool:
            return None
        name, rack = self.rng.choice(pool)
        old = world._zk_obj(z.path.server(name)) or {}
        self.follow.extend([{'op': 'drain'}, {'op': 'master_cycle'}])
        return {'op': 'srv_set', 'name': name, 'parent': rack,
                'partition': old.get('partition') or '_default',
                'memory': old.get('memory'), 'cpu': old.get('cpu'),
                'disk': old.get('disk'), 'traits': old.get('traits') or [],
                'up_since': old.get('up_since')}

    def g_undefined_server_event(self, world):
        """The definition of a server that holds instances is deleted and the
        running master is told with the list-less 'servers' event; the next
        cycle re-places the instances (C10 enumerates its crash points)."""
        stored = world.stored_placement()
        servers = sorted({s for recs in stored.values() for s, _d in recs
                          if world.zk.nodes.get(z.path.server(s))})
        if not servers:
            return None
        self.follow.extend([{'op': 'servers_reload_all'}, {'op': 'drain'},
                            {'op': 'master_cycle', 'focus': True}])
        return {'op': 'srv_delete', 'name': self.rng.choice(servers),
                'raw': True}

    def g_pending_start_then_down(self, world):
        """Instances are placed but have not reported running when the
        pending-start check notes them; then their server goes down and stays
        down past the start interval: nothing may be taken off it before the
        retention time."""
        stored = world.stored_placement()
        running = set(world.zk.children(z.RUNNING) or [])
        servers = sorted({s for app, recs in stored.items()
                          if app not in running for s, _d in recs
                          if world.zk.nodes.get(z.path.server_presence(s))})
        if not servers:
            return None
        name = self.rng.choice(servers)
        self.follow.extend([
            {'op': 'presence_down', 'name': name},
            {'op': 'drain'}, {'op': 'master_cycle'},
            {'op': 'advance', 'dt': self.rng.choice([301.0, 400.0])},
            {'op': 'integrity'},
            {'op': 'master_cycle'}])
        return {'op': 'integrity'}

    def g_flap_with_reload(self, world):
        """A server with instances goes down, its record is changed while it
        is down (so it comes back as a new server object), and it goes down
        again later: the second outage must count from its own beginning."""
        stored = world.stored_placement()
        servers = sorted({s for recs in stored.values() for s, _d in recs
                          if world.zk.nodes.get(z.path.server_presence(s))})
        if not servers:
            return None
        name = self.rng.choice(servers)
        spec = server_spec(self.rng, self.config, name)
        cur = world._zk_obj(z.path.server(name)) \
            if hasattr(world, '_zk_obj') else None
        if cur:
            spec['parent'] = cur.get('parent', spec['parent'])
            spec['partition'] = cur.get('partition') or '_default'
            spec['traits'] = cur.get('traits', [])
        spec['op'] = 'srv_set'
        self.follow.extend([
            {'op': 'drain'}, {'op': 'master_cycle'},
            spec,
            self.rng.choice([{'op': 'drain'}, {'op': 'restart'}]),
            {'op': 'presence_up', 'name': name},
            {'op': 'drain'}, {'op': 'master_cycle'},
            {'op': 'advance', 'dt': self.rng.choice([31.0, 301.0, 3601.0])},
            {'op': 'presence_down', 'name': name},
            {'op': 'drain'}, {'op': 'master_cycle'}])
        return {'op': 'presence_down', 'name': name}

    def g_frozen_then_presence_lost(self, world):
        """A server holding instances is frozen (nothing marked), later it
        loses its presence: from then on it is down, and its instances go
        after their retention time like those of any down server."""
        stored = world.stored_placement()
        servers = sorted({s for recs in stored.values() for s, _d in recs
                          if world.zk.nodes.get(z.path.server_presence(s))})
        if not servers:
            return None
        name = self.rng.choice(servers)
        proid = self.rng.choice(self.config['proids'])
        manifest = {'memory': '256M', 'cpu': '10%', 'disk': '256M',
                    'affinity': '%s.job' % proid}
        limits = self.config['aff_limits'].get(manifest['affinity'])
        if limits:
            manifest['affinity_limits'] = limits
        self.follow.extend([
            {'op': 'drain'}, {'op': 'master_cycle'},
            {'op': 'presence_down', 'name': name},
            {'op': 'drain'}, {'op': 'master_cycle'},
            {'op': 'advance', 'dt': self.rng.choice([31.0, 301.0, 3601.0])},
            # (the master computes a cycle only when something happened)
            {'op': 'app_create', 'app_id': '%s.job' % proid,
             'manifest': manifest, 'count': 1},
            {'op': 'drain'}, {'op': 'master_cycle'}])
        return {'op': 'srv_state', 'name': name, 'state': 'frozen',
                'apps': None}

    def g_trait_lost_then_place(self, world):
        """A loaded server comes back reporting one trait fewer (nothing
        else changes); then instances that require exactly that trait
        arrive."""
        cands = []
        for name in self._servers(world):
            data = world._zk_obj(z.path.server(name)) or {}
            if data.get('parent') and data.get('traits') and \
                    world.zk.nodes.get(z.path.server_presence(name)):
                cands.append((name, data))
        if not cands:
            return None
        name, old = self.rng.choice(cands)
        traits = list(old['traits'])
        lost = self.rng.choice(traits)
        traits.remove(lost)
        proid = self.rng.choice(self.config['proids'])
        manifest = {'memory': '256M', 'cpu': '10%', 'disk': '256M',
                    'affinity': '%s.job' % proid, 'traits': [lost]}
        limits = self.config['aff_limits'].get(manifest['affinity'])
        if limits:
            manifest['affinity_limits'] = limits
        follow = [{'op': 'drain'}, {'op': 'master_cycle'}]
        if self.rng.random() < 0.5:
            # the node restarted: its presence goes and comes back
            follow = [{'op': 'presence_down', 'name': name}, {'op': 'drain'},
                      {'op': 'presence_up', 'name': name}] + follow
        follow.extend([
            {'op': 'app_create', 'app_id': '%s.job' % proid,
             'manifest': manifest, 'count': self.rng.randint(2, 5)},
            {'op': 'drain'}, {'op': 'master_cycle'}])
        self.follow.extend(follow)
        return {'op': 'srv_set', 'name': name, 'parent': old['parent'],
                'partition': old.get('partition') or '_default',
                'memory': old.get('memory'), 'cpu': old.get('cpu'),
                'disk': old.get('disk'), 'traits': traits,
                'up_since': old.get('up_since')}

    def g_frozen_node_restart(self, world):
        """A frozen server's node restarts: presence goes, the node rewrites
        its own record with one trait fewer (no event), presence comes back,
        the server is unfrozen; then instances that require exactly that
        trait arrive."""
        cands = []
        for name in self._servers(world):
            data = world._zk_obj(z.path.server(name)) or {}
            if data.get('parent') and data.get('traits') and \
                    world.zk.nodes.get(z.path.server_presence(name)):
                cands.append((name, data))
        if not cands:
            return None
        name, old = self.rng.choice(cands)
        traits = list(old['traits'])
        lost = self.rng.choice(traits)
        traits.remove(lost)
        proid = self.rng.choice(self.config['proids'])
        manifest = {'memory': '256M', 'cpu': '10%', 'disk': '256M',
                    'affinity': '%s.job' % proid, 'traits': [lost]}
        limits = self.config['aff_limits'].get(manifest['affinity'])
        if limits:
            manifest['affinity_limits'] = limits
        self.follow.extend([
            {'op': 'drain'}, {'op': 'master_cycle'},
            {'op': 'presence_down', 'name': name}, {'op': 'drain'},
            {'op': 'srv_set', 'quiet': True, 'name': name,
             'parent': old['parent'],
             'partition': old.get('partition') or '_default',
             'memory': old.get('memory'), 'cpu': old.get('cpu'),
             'disk': old.get('disk'), 'traits': traits,
             'up_since': old.get('up_since')},
            {'op': 'presence_up', 'name': name}, {'op': 'drain'},
            {'op': 'srv_state', 'name': name, 'state': 'up'},
            {'op': 'drain'}, {'op': 'master_cycle'},
            {'op': 'app_create', 'app_id': '%s.job' % proid,
             'manifest': manifest, 'count': self.rng.randint(2, 5)},
            {'op': 'drain'}, {'op': 'master_cycle'}])
        return {'op': 'srv_state', 'name': name, 'state': 'frozen'}

    def g_reload_race(self, world):
        """A node that holds instances restarts with a changed record and
        dies again while the master is reloading it: its presence node goes
        between two of the master's reads of it."""
        cands = []
        for name in self._servers(world):
            data = world._zk_obj(z.path.server(name)) or {}
            kept = [a for a in world.zk.children(z.path.placement(name))
                    or [] if (world._zk_obj(z.path.scheduled(a)) or {}).get(
                        'data_retention_timeout') in ('5m', '1h')]
            # (instances that stay on the server while it is down)
            if data.get('parent') and kept and \
                    world.zk.nodes.get(z.path.server_presence(name)):
                cands.append((name, data))
        if not cands:
            return None
        name, old = self.rng.choice(cands)
        grown = self.rng.choice(CAP_SPELL)(
            self.rng.randint(self.config['cap_hi'],
                             self.config['cap_hi'] + 4) * 256)
        pres = z.path.server_presence(name)
        self.follow.extend([
            {'op': 'drain'}, {'op': 'master_cycle'},
            {'op': 'srv_set', 'quiet': True, 'name': name,
             'parent': old['parent'],
             'partition': old.get('partition') or '_default',
             'memory': grown, 'cpu': old.get('cpu'),
             'disk': old.get('disk'), 'traits': old.get('traits') or [],
             'up_since': old.get('up_since')},
            {'op': 'presence_up', 'name': name},
            {'op': 'snap', 'path': z.SERVER_PRESENCE},
            {'op': 'process', 'intrude': {
                'on_path': pres, 'at': self.rng.choice([2, 3, 4, 5, 5, 6]),
                'op': {'op': 'presence_down', 'name': name}}},
            {'op': 'drain'}, {'op': 'master_cycle'}])
        return {'op': 'presence_down', 'name': name}

    def g_late_event(self, world):
        """An administrator moves a server to another partition (or takes
        a trait off it) and posts the 'servers' event while the master is
        busy with an earlier batch of events; then instances arrive that
        belong where the server used to be."""
        cands = []
        for name in self._servers(world):
            data = world._zk_obj(z.path.server(name)) or {}
            if data.get('parent') and \
                    world.zk.nodes.get(z.path.server_presence(name)):
                cands.append((name, data))
        if not cands or world.master is None:
            return None
        name, old = self.rng.choice(cands)
        part = old.get('partition') or '_default'
        others = [p for p in self.config['partitions'] if p != part]
        traits = list(old.get('traits') or [])
        proid = self.rng.choice(self.config['proids'])
        manifest = {'memory': '256M', 'cpu': '10%', 'disk': '256M',
                    'affinity': '%s.job' % proid}
        if others and (not traits or self.rng.random() < 0.6):
            newpart, newtraits = self.rng.choice(others), traits
        elif traits:
            lost = self.rng.choice(traits)
            newpart, newtraits = part, [t for t in traits if t != lost]
            manifest['traits'] = [lost]
        else:
            return None
        limits = self.config['aff_limits'].get(manifest['affinity'])
        if limits:
            manifest['affinity_limits'] = limits
        other = self.rng.choice([n for n, _d in cands])
        # the earlier batch: something that names no server record
        self.follow.extend([
            self.rng.choice([
                {'op': 'apps_blacklist', 'patterns': ['nobody.*']},
                {'op': 'srv_state', 'name': other, 'state': 'up'}]),
            {'op': 'snap', 'path': z.EVENTS},
            {'op': 'process', 'intrude': {
                'at': self.rng.choice([1, 2, 3, 4, 6]),
                'op': {'op': 'srv_set', 'name': name,
                       'parent': old['parent'], 'partition': newpart,
                       'memory': old.get('memory'), 'cpu': old.get('cpu'),
                       'disk': old.get('disk'), 'traits': newtraits,
                       'up_since': old.get('up_since')}}},
            {'op': 'drain'}, {'op': 'master_cycle'},
            {'op': 'app_create', 'app_id': '%s.job' % proid,
             'manifest': manifest, 'count': self.rng.randint(3, 6)},
            {'op': 'drain'}, {'op': 'master_cycle'}])
        # (first everything outstanding is handled, so that the step the
        # change lands in is the one that handles that batch)
        return {'op': 'drain'}

    def g_reload_vanish(self, world):
        """A server that holds instances is redeclared (capacity) and,
        while the master reloads it, deleted: its definition goes between
        two of the master's reads of it (C09-C11: no harness-side record of
        what the master was shown is needed)."""
        if world.prop in CELL_PROPS:
            return None
        cands = []
        for name in self._servers(world):
            data = world._zk_obj(z.path.server(name)) or {}
            if data.get('parent') and \
                    world.zk.children(z.path.placement(name)):
                cands.append((name, data))
        if not cands or world.master is None:
            return None
        name, old = self.rng.choice(cands)
        grown = self.rng.choice(CAP_SPELL)(
            self.rng.randint(self.config['cap_hi'],
                             self.config['cap_hi'] + 4) * 256)
        self.follow.extend([
            {'op': 'srv_set', 'name': name, 'parent': old['parent'],
             'partition': old.get('partition') or '_default',
             'memory': grown, 'cpu': old.get('cpu'),
             'disk': old.get('disk'), 'traits': old.get('traits') or [],
             'up_since': old.get('up_since')},
            {'op': 'snap', 'path': z.EVENTS},
            {'op': 'process', 'intrude': {
                'on_path': z.path.server(name),
                'at': self.rng.choice([1, 2, 2, 3]),
                'op': {'op': 'srv_delete', 'name': name,
                       'raw': self.rng.random() < 0.5}}},
            {'op': 'master_cycle', 'focus': True},
            {'op': 'drain'}, {'op': 'master_cycle'}])
        return {'op': 'drain'}

    def g_rack_reparent(self, world, staged=False, aff=None):
        """A rack that holds placed instances is redeclared under another
        pod (C04 and C09 runs only: the other properties' reading of the
        records follows the declared topology, and a restarted master that
        finds two recorded instances in what is now one pod must drop one -
        C04 outranks C11 there).  First instances of an affinity limited to
        one per pod are spread over the pods."""
        if world.prop not in ('C04', 'C09'):
            return None
        pods = [p for p, _r in self.config['topology']]
        if len(pods) < 2:
            return None
        if not staged:
            proid = self.rng.choice(self.config['proids'])
            aff = '%s.rr' % proid
            self.config['aff_limits'][aff] = {'pod': 1}
            manifest = {'memory': '256M', 'cpu': '10%', 'disk': '256M',
                        'affinity': aff, 'affinity_limits': {'pod': 1},
                        'priority': 50}
            self.follow.extend([{'op': 'drain'}, {'op': 'master_cycle'},
                                {'gen': 'rack_reparent', 'aff': aff}])
            return {'op': 'app_create', 'app_id': aff, 'manifest': manifest,
                    'count': len(pods)}
        racks = {}
        for app, recs in world.stored_placement().items():
            if aff is not None and app.split('#')[0] != aff:
                continue
            for srv, _d in recs:
                data = world._zk_obj(z.path.server(srv)) or {}
                if data.get('parent'):
                    racks.setdefault(data['parent'], 0)
                    racks[data['parent']] += 1
        cands = []
        for rack in sorted(racks):
            bdata = world._zk_obj(z.path.bucket(rack)) or {}
            if bdata.get('parent') in pods:
                cands.append((rack, bdata['parent']))
        if not cands:
            return None
        rack, cur = self.rng.choice(cands)
        held = {p for _r, p in cands}
        target = self.rng.choice([p for p in pods if p != cur and
                                  p in held] or
                                 [p for p in pods if p != cur])
        self.follow.extend([{'op': 'drain'}, {'op': 'master_cycle'}])
        if self.rng.random() < 0.3:
            self.follow.extend([{'op': 'restart'}, {'op': 'drain'},
                                {'op': 'master_cycle'}])
        return {'op': 'bucket_reparent', 'name': rack, 'parent': target}

    def g_stale_absence_snapshot(self, world):
        """A server that holds instances loses its presence node and
        registers again before the master gets to the snapshot that does not
        list it; a cycle runs before the next snapshot is handled."""
        cands = [n for n in self._servers(world)
                 if world.zk.children(z.path.placement(n)) and
                 world.zk.nodes.get(z.path.server_presence(n))]
        if not cands:
            return None
        name = self.rng.choice(cands)
        self.follow.extend([
            {'op': 'presence_down', 'name': name},
            {'op': 'snap', 'path': z.SERVER_PRESENCE},
            {'op': 'presence_up', 'name': name},
            {'op': 'process'}, {'op': 'master_cycle'},
            {'op': 'drain'}, {'op': 'master_cycle'}])
        return {'op': 'drain'}

    def g_stale_presence_snapshot(self, world):
        """A server the master holds as down registers again, the watch
        fires, and the server is gone again before the master gets to the
        queued snapshot; instances are waiting for a place."""
        names = [n for n in self._servers(world)
                 if (world._zk_obj(z.path.server(n)) or {}).get('parent')]
        if not names:
            return None
        name = self.rng.choice(names)
        proid = self.rng.choice(self.config['proids'])
        manifest = {'memory': '256M', 'cpu': '10%', 'disk': '256M',
                    'affinity': '%s.job' % proid}
        limits = self.config['aff_limits'].get(manifest['affinity'])
        if limits:
            manifest['affinity_limits'] = limits
        self.follow.extend([
            {'op': 'drain'}, {'op': 'master_cycle'},
            {'op': 'presence_up', 'name': name},
            {'op': 'snap', 'path': z.SERVER_PRESENCE},
            {'op': 'presence_down', 'name': name},
            {'op': 'app_create', 'app_id': '%s.job' % proid,
             'manifest': manifest, 'count': self.rng.randint(3, 6)},
            {'op': 'snap', 'path': z.SCHEDULED},
            {'op': 'process'}, {'op': 'process'}, {'op': 'master_cycle'},
            {'op': 'drain'}, {'op': 'master_cycle'}])
        return {'op': 'presence_down', 'name': name}

    def g_overlapping_blackouts(self, world):
        """Two blackout patterns cover the same instances; one of the two is
        cleared, the other stays in force."""
        apps = sorted({n.split('#')[0] for n in self._scheduled(world)})
        if not apps:
            return None
        app = self.rng.choice(apps)
        proid = app.split('.')[0]
        wide = self.rng.choice(['%s.*' % proid, '%s*' % app[:-1], '*'])
        narrow = self.rng.choice([app, '%s*' % app, '%s.?*' % proid])
        if wide == narrow:
            wide = '%s.*' % proid
        both = [wide, narrow]
        self.rng.shuffle(both)
        keep = self.rng.choice(both)
        self.follow.extend([
            {'op': 'drain'}, {'op': 'master_cycle'},
            {'op': 'apps_blacklist', 'patterns': [keep]},
            {'op': 'drain'}, {'op': 'master_cycle'},
            {'op': 'advance', 'dt': self.rng.choice([1.0, 61.0])},
            {'op': 'drain'}, {'op': 'master_cycle'}])
        if self.rng.random() < 0.5:
            # built up in two steps
            self.follow.insert(0, {'op': 'apps_blacklist', 'patterns': both})
            self.follow.insert(0, {'op': 'drain'})
            return {'op': 'apps_blacklist', 'patterns': both[:1]}
        return {'op': 'apps_blacklist', 'patterns': both}

    def g_stale_record_failover(self, world):
        """C11: an instance is deleted and the master fails over before it
        hears of it: the stale record is dropped, every other recorded
        instance of that server is reloaded."""
        stored = world.stored_placement()
        per_srv = {}
        for app, recs in stored.items():
            for srv, _d in recs:
                per_srv.setdefault(srv, []).append(app)
        crowded = sorted(s for s, apps in per_srv.items() if len(apps) >= 2)
        if not crowded:
            return None
        victim = self.rng.choice(sorted(per_srv[self.rng.choice(crowded)]))
        self.follow.extend([
            {'op': 'master_cycle'},
            {'op': 'app_delete_quiet', 'name': victim},
            {'op': 'c11_probe'}])
        return {'op': 'drain'}

    def g_probe_after_group(self, world):
        """C11: an identity group is changed and a fail-over happens before
        the master computes another cycle: the recorded identities must still
        be reloaded (the statement lists no exception for shrunk groups)."""
        if not self.config['group_names']:
            return None
        self.follow.extend([
            {'op': 'group', 'name': self.rng.choice(
                self.config['group_names']),
             'count': self.rng.choice([0, 1, 2])},
            {'op': 'c11_probe'}])
        return {'op': 'drain'}

    def g_identity_churn(self, world):
        """The holder of a low identity leaves, then the group shrinks below
        an identity that is still held; optionally the master fails over."""
        master = world.master
        if master is None:
            return None
        by_group = {}
        for name in sorted(master.cell.apps):
            app = master.cell.apps[name]
            if app.identity_group and app.identity is not None and app.server:
                by_group.setdefault(app.identity_group, []).append(
                    (app.identity, name))
        groups = sorted(g for g, v in by_group.items() if len(v) >= 2)
        if not groups:
            return None
        group = self.rng.choice(groups)
        held = sorted(by_group[group])
        low_name = held[0][1]
        top = held[-1][0]
        self.follow.extend([
            {'op': 'drain'}, {'op': 'master_cycle'},
            {'op': 'group', 'name': group, 'count': top},
            self.rng.choice([{'op': 'restart'}, {'op': 'drain'}]),
            {'op': 'master_cycle'}])
        return {'op': 'app_delete', 'name': low_name}

    def g_identity_evict_restore(self, world, staged=False):
        """A member of an identity group that has a spare identity is evicted
        in vain (an instance of its own application that fits nowhere arrives
        ahead of it) and put back where it was, twice; then the oversized
        instance leaves, one more member arrives, and the master fails over:
        every member must come back with the identity it had."""
        master = world.master
        if master is None:
            return None
        holders = {}
        for name in sorted(master.cell.apps):
            app = master.cell.apps[name]
            if app.identity_group and app.identity is not None and \
                    app.server and 0 < app.priority < 100:
                holders.setdefault(app.identity_group, []).append(name)
        if not holders:
            if staged or not self.config['group_names']:
                return None
            group = self.rng.choice(self.config['group_names'])
            proid = self.rng.choice(self.config['proids'])
            manifest = {'memory': '256M', 'cpu': '10%', 'disk': '256M',
                        'affinity': '%s.db' % proid, 'identity_group': group,
                        'priority': 10}
            limits = self.config['aff_limits'].get(manifest['affinity'])
            if limits:
                manifest['affinity_limits'] = limits
            self.follow.extend([
                {'op': 'app_create', 'app_id': '%s.db' % proid,
                 'manifest': manifest, 'count': 2},
                {'op': 'drain'}, {'op': 'master_cycle'},
                {'gen': 'identity_evict_restore'}])
            return {'op': 'group', 'name': group, 'count': 3}
        group = self.rng.choice(sorted(holders))
        member = self.rng.choice(holders[group])
        appid = member.split('#')[0]
        man = dict(world._zk_obj(z.path.scheduled(member)) or {})
        giant = dict(man, memory='999999M', priority=100)
        giant.pop('identity_group', None)
        extra = dict(man)
        self.follow.extend([
            {'op': 'app_create', 'app_id': appid, 'manifest': giant,
             'count': 1},
            {'op': 'drain'}, {'op': 'master_cycle'},
            {'op': 'app_prio', 'name': member,
             'prio': master.cell.apps[member].priority},
            {'op': 'drain'}, {'op': 'master_cycle'},
            {'gen': 'drop_giants'},
            {'op': 'app_create', 'app_id': appid, 'manifest': extra,
             'count': 1},
            {'op': 'drain'}, {'op': 'master_cycle'}, {'op': 'restart'},
            {'op': 'drain'}, {'op': 'master_cycle'}])
        return {'op': 'group', 'name': group,
                'count': len(holders[group]) + 2}

    def g_identity_shrink_regrow(self, world, staged=False, phase=0):
        """A group is exactly full; the holder of a low identity leaves; the
        group shrinks so that the holder of the highest identity loses it
        and takes the freed one (usually staying where it is); the group
        grows back, a new member takes the highest identity; fail-over."""
        master = world.master
        if master is None or not self.config['group_names']:
            return None
        holders = {}
        for name in sorted(master.cell.apps):
            app = master.cell.apps[name]
            if app.identity_group and app.identity is not None and \
                    app.server:
                holders.setdefault(app.identity_group, {})[app.identity] = \
                    name
        full = [g for g, ids in sorted(holders.items())
                if len(ids) >= 3 and sorted(ids) == list(range(len(ids)))]
        if not full:
            if staged:
                return None
            group = self.rng.choice(self.config['group_names'])
            proid = self.rng.choice(self.config['proids'])
            manifest = {'memory': '256M', 'cpu': '10%', 'disk': '256M',
                        'affinity': '%s.db' % proid, 'identity_group': group}
            limits = self.config['aff_limits'].get(manifest['affinity'])
            if limits:
                manifest['affinity_limits'] = limits
            self.follow.extend([
                {'gen': 'drop_group_members', 'group': group},
                {'op': 'drain'}, {'op': 'master_cycle'},
                {'op': 'app_create', 'app_id': '%s.db' % proid,
                 'manifest': manifest, 'count': 3},
                {'op': 'drain'}, {'op': 'master_cycle'},
                {'gen': 'identity_shrink_regrow'}])
            return {'op': 'group', 'name': group, 'count': 3}
        group = self.rng.choice(full)
        ids = holders[group]
        count = len(ids)
        leaver = ids[self.rng.randint(0, count - 2)]
        appid = ids[count - 1].split('#')[0]
        extra = dict(world._zk_obj(z.path.scheduled(ids[count - 1])) or {})
        self.follow.extend([
            {'op': 'drain'}, {'op': 'master_cycle'},
            {'op': 'group', 'name': group, 'count': count - 1},
            {'op': 'drain'}, {'op': 'master_cycle'},
            {'op': 'group', 'name': group, 'count': count},
            {'op': 'app_create', 'app_id': appid, 'manifest': extra,
             'count': 1},
            {'op': 'drain'}, {'op': 'master_cycle'}, {'op': 'restart'},
            {'op': 'drain'}, {'op': 'master_cycle'}])
        return {'op': 'app_delete', 'name': leaver}

    def g_drop_group_members(self, world, staged=False, group=None):
        """(staging step) instances of the group that are around already"""
        names = [n for n in self._scheduled(world)
                 if (world._zk_obj(z.path.scheduled(n)) or {}).get(
                     'identity_group') == group]
        if not names:
            return None
        if len(names) > 1:
            self.follow.insert(0, {'gen': 'drop_group_members',
                                   'group': group})
        return {'op': 'app_delete', 'name': names[0]}

    def g_drop_giants(self, world, staged=False):
        for name in self._scheduled(world):
            man = world._zk_obj(z.path.scheduled(name)) or {}
            if man.get('memory') == '999999M':
                return {'op': 'app_delete', 'name': name}
        return None

    def g_resize_mixed(self, world):
        """A loaded server is redeclared with one dimension larger and
        another smaller than what is placed on it (same rack, partition and
        traits): its instances are put back one by one, the ones that no
        longer fit are not."""
        import math
        stored = world.stored_placement()
        servers = sorted({s for recs in stored.values() for s, _d in recs
                          if world.zk.nodes.get(z.path.server(s))})
        if not servers:
            return None
        name = self.rng.choice(servers)
        old = world._zk_obj(z.path.server(name)) or {}
        free = world.m_free(name)
        if not old.get('parent') or free is None:
            return None
        cap = [math.floor(x + 1e-9) for x in _own_vec(old)]
        used = [cap[d] - free[d] for d in range(3)]
        dims = [0, 1, 2]
        self.rng.shuffle(dims)
        up, down = dims[0], dims[1]
        new = list(cap)
        new[up] = cap[up] + self.rng.choice([10, 256, 512])
        new[down] = max(0, used[down] - self.rng.choice([1, 10, 256]))
        self.follow.extend([{'op': 'drain'}, {'op': 'master_cycle'}])
        return {'op': 'srv_set', 'name': name, 'parent': old['parent'],
                'partition': old.get('partition') or '_default',
                'memory': '%dM' % new[0], 'cpu': '%d%%' % new[1],
                'disk': '%dM' % new[2], 'traits': old.get('traits') or [],
                'up_since': old.get('up_since')}

    def g_delete_then_apps_event(self, world):
        """A placed instance is deleted while an 'apps' event naming it is
        on its way; the master handles the event before it sees the new
        /scheduled listing."""
        stored = world.stored_placement()
        names = sorted(a for a in stored if a in self._scheduled(world))
        if not names:
            return None
        name = self.rng.choice(names)
        self.follow.extend([
            {'op': 'app_delete_quiet', 'name': name},
            {'op': 'apps_event', 'names': [name]},
            {'op': 'snap', 'path': z.EVENTS}, {'op': 'process'},
            {'op': 'drain'}, {'op': 'master_cycle'},
            {'op': 'master_cycle'}])
        return {'op': 'drain'}

    def g_move_partition(self, world):
        """The allocation a placed instance is assigned to moves to another
        partition (or a new assignment sends the instance there); the next
        cycle has to take it off its server and publish that."""
        parts = self.config['partitions']
        if len(parts) < 2 or world.master is None:
            return None
        stored = world.stored_placement()
        names = sorted(a for a in stored if a in self._scheduled(world))
        if not names:
            return None
        name = self.rng.choice(names)
        allocs = [dict(a) for a in (world._zk_obj(z.ALLOCATIONS) or [])]
        appid = name.split('#')[0]
        import fnmatch
        hit = None
        for alloc in allocs:
            for asg in alloc.get('assignments', []):
                if fnmatch.fnmatchcase(appid, asg['pattern']):
                    hit = alloc
                    break
            if hit:
                break
        if hit is not None:
            # (an allocation is identified by partition and name: never
            # produce two records of the same identity)
            others = [p for p in parts if p != hit.get('partition') and
                      not any(a is not hit and a['name'] == hit['name'] and
                              a.get('partition') == p for a in allocs)]
            if not others:
                return None
            hit['partition'] = self.rng.choice(others)
        else:
            others = [p for p in parts if p != '_default']
            allocs.append({
                'name': 'tm/mv%d' % len(allocs),
                'partition': self.rng.choice(others),
                'memory': '0M', 'cpu': '0%', 'disk': '0M', 'rank': 100,
                'rank_adjustment': 0, 'max_utilization': None, 'traits': [],
                'assignments': [{'pattern': appid + '*', 'priority': 1}]})
        self.follow.extend([{'op': 'drain'},
                            {'op': 'master_cycle', 'focus': True}])
        return {'op': 'allocations', 'allocations': allocs}

    def g_lease_squeeze_failover(self, world, staged=False):
        """Time passes until a server is too close to its reboot for a NEW
        lease of the length a running instance has - the running lease still
        fits - and the master fails over (C11 probes after the cycle)."""
        master = world.master
        if master is None:
            return None
        now = world.clock.peek()
        cands = []
        for name in sorted(master.cell.apps):
            app = master.cell.apps[name]
            srv = master.servers.get(app.server) if app.server else None
            if app.lease and srv is not None and srv.valid_until and \
                    srv.state is scheduler.State.up:
                dt = srv.valid_until - app.lease - now
                if 0 < dt + 60 < app.placement_expiry - now - 60:
                    cands.append(dt + 60)
        if not cands:
            if staged:
                return None
            # no leased instance in that position yet: submit some first
            proid = self.rng.choice(self.config['proids'])
            manifest = {'memory': '256M', 'cpu': '10%', 'disk': '256M',
                        'affinity': '%s.job' % proid,
                        'lease': self.rng.choice(['12h', '1d', '3d'])}
            limits = self.config['aff_limits'].get(manifest['affinity'])
            if limits:
                manifest['affinity_limits'] = limits
            self.follow.extend([{'op': 'drain'}, {'op': 'master_cycle'},
                                {'gen': 'lease_squeeze_failover'}])
            return {'op': 'app_create', 'app_id': '%s.job' % proid,
                    'manifest': manifest, 'count': self.rng.randint(1, 3)}
        self.follow.extend([{'op': 'drain'}, {'op': 'master_cycle'},
                            {'op': 'c11_probe'}])
        return {'op': 'advance', 'dt': round(self.rng.choice(cands), 3)}

    def g_flap_then_place(self, world, staged=False):
        """A server keeps an instance through a presence flap (its record is
        then older than the server's presence), later instances are placed
        on it; then the master fails over."""
        stored = world.stored_placement()
        cands = []
        for app, recs in stored.items():
            man = world._zk_obj(z.path.scheduled(app)) or {}
            if man.get('data_retention_timeout') in ('30s', '5m', '1h'):
                for srv, _d in recs:
                    if world.zk.nodes.get(z.path.server_presence(srv)):
                        cands.append(srv)
        if not cands:
            if staged:
                return None
            proid = self.rng.choice(self.config['proids'])
            manifest = {'memory': '256M', 'cpu': '10%', 'disk': '256M',
                        'affinity': '%s.db' % proid,
                        'data_retention_timeout': '1h'}
            limits = self.config['aff_limits'].get(manifest['affinity'])
            if limits:
                manifest['affinity_limits'] = limits
            self.follow.extend([{'op': 'drain'}, {'op': 'master_cycle'},
                                {'gen': 'flap_then_place'}])
            return {'op': 'app_create', 'app_id': '%s.db' % proid,
                    'manifest': manifest, 'count': 2}
        srv = self.rng.choice(sorted(set(cands)))
        proid = self.rng.choice(self.config['proids'])
        manifest = {'memory': '256M', 'cpu': '10%', 'disk': '256M',
                    'affinity': '%s.job' % proid}
        limits = self.config['aff_limits'].get(manifest['affinity'])
        if limits:
            manifest['affinity_limits'] = limits
        if self.rng.random() < 0.5:
            manifest['schedule_once'] = True
        else:
            manifest['lease'] = '1h'
        self.follow.extend([
            {'op': 'drain'}, {'op': 'master_cycle'},
            {'op': 'presence_up', 'name': srv}, {'op': 'drain'},
            {'op': 'master_cycle'},
            {'op': 'app_create', 'app_id': '%s.job' % proid,
             'manifest': manifest, 'count': 3},
            {'op': 'drain'}, {'op': 'master_cycle'}, {'op': 'c11_probe'}])
        return {'op': 'presence_down', 'name': srv}

    def g_relimit_generation(self, world):
        """Every instance of an affinity is deleted, the affinity's limits
        are redeclared (often the same values on other levels), and a new
        generation of instances arrives (instances of one affinity share
        their limits at all times)."""
        limited = sorted(self.config['aff_limits'])
        if not limited:
            return None
        aff = self.rng.choice(limited)
        old = self.config['aff_limits'][aff]
        mine = [n for n in self._scheduled(world) if n.split('#')[0] == aff]
        levels = ['server', 'rack', 'pod', 'cell']
        self.rng.shuffle(levels)
        if self.rng.random() < 0.7:
            new = dict(zip(levels, sorted(old.values())))
        else:
            new = {lv: self.rng.randint(1, 3) for lv in levels
                   if self.rng.random() < 0.5}
        ops = [{'op': 'app_delete', 'name': n} for n in mine]
        ops.extend([{'op': 'drain'}, {'op': 'master_cycle'}])
        self.config['aff_limits'][aff] = new
        manifest = {'memory': '256M', 'cpu': '10%', 'disk': '256M',
                    'affinity': aff}
        if new:
            manifest['affinity_limits'] = dict(new)
        ops.extend([{'op': 'app_create', 'app_id': aff, 'manifest': manifest,
                     'count': self.rng.randint(2, 4)},
                    {'op': 'drain'}, {'op': 'master_cycle'}])
        self.follow.extend(ops[1:])
        return ops[0]

    def g_identity_handover_crash(self, world, staged=False):
        """An identity changes hands inside one cycle - its holder is
        blacked out (stays scheduled, loses its placement) and a waiting
        member of the same, fully used group takes the identity over - and
        the master stops somewhere inside that cycle's publication; after
        the fail-over one more member arrives."""
        master = world.master
        if master is None:
            return None
        by_group = {}
        for name in sorted(master.cell.apps):
            app = master.cell.apps[name]
            if app.identity_group and app.identity is not None and app.server:
                by_group.setdefault(app.identity_group, []).append(name)
        if not by_group:
            if staged or not self.config['group_names']:
                return None
            # set the stage: a group of two with two members placed
            group = self.rng.choice(self.config['group_names'])
            proid = self.rng.choice(self.config['proids'])
            manifest = {'memory': '256M', 'cpu': '10%', 'disk': '256M',
                        'affinity': '%s.web' % proid,
                        'identity_group': group}
            limits = self.config['aff_limits'].get(manifest['affinity'])
            if limits:
                manifest['affinity_limits'] = limits
            self.follow.extend([
                {'op': 'app_create', 'app_id': '%s.web' % proid,
                 'manifest': manifest, 'count': self.rng.randint(1, 2)},
                {'op': 'drain'}, {'op': 'master_cycle'},
                {'gen': 'identity_handover_crash'}])
            return {'op': 'group', 'name': group, 'count': 2}
        group = self.rng.choice(sorted(by_group))
        holders = by_group[group]
        victim = self.rng.choice(holders)
        vapp = victim.split('#')[0]
        proid = vapp.split('.')[0]
        others = [a for a in ('web', 'db', 'job')
                  if '%s.%s' % (proid, a) != vapp]
        self.rng.shuffle(others)

        def member(app):
            manifest = {'memory': '256M', 'cpu': '10%', 'disk': '256M',
                        'affinity': '%s.%s' % (proid, app),
                        'identity_group': group}
            limits = self.config['aff_limits'].get(manifest['affinity'])
            if limits:
                manifest['affinity_limits'] = limits
            return {'op': 'app_create', 'app_id': '%s.%s' % (proid, app),
                    'manifest': manifest, 'count': 1}
        self.follow.extend([
            member(others[0]), {'op': 'drain'}, {'op': 'master_cycle'},
            # (a fail-over first: the order in which the next master holds
            # the instances is the order ZooKeeper lists them in)
            {'op': 'restart'}, {'op': 'drain'}, {'op': 'master_cycle'},
            {'op': 'apps_blacklist', 'patterns': [vapp]}, {'op': 'drain'},
            dict({'op': 'master_cycle'}, **self.rng.choice([
                {'crash_at': 1, 'applied': True},
                {'crash_at': 2, 'applied': False},
                {'crash_at': 2, 'applied': True},
                {'crash_at': 3, 'applied': False},
                {'crash_at': self.rng.randint(1, 5),
                 'applied': self.rng.random() < 0.5}])),
            {'op': 'restart'}, member(others[1]), {'op': 'drain'},
            {'op': 'master_cycle'},
            {'op': 'apps_blacklist', 'patterns': []}])
        return {'op': 'group', 'name': group, 'count': len(holders)}


OP_WEIGHTS = [
    ('app_create', 30), ('app_delete', 6), ('app_prio', 4), ('srv_set', 6),
    ('srv_delete', 2), ('presence_up', 6), ('presence_down', 6),
    ('allocations', 3), ('group', 4), ('group_delete', 1), ('srv_state', 4),
    ('apps_blacklist', 2), ('blackout_server', 1), ('running', 4),
    ('advance', 8), ('snap', 10), ('process', 14), ('drain', 10),
    ('master_cycle', 22), ('integrity', 3), ('tick', 1), ('restart', 3),
    ('failover_after_down', 3), ('identity_churn', 6), ('cell_bucket', 2),
    ('flap_with_reload', 2), ('zombie_write', 1), ('probe_after_group', 2),
    ('pending_start_then_down', 2), ('servers_reload_all', 1),
    ('undefined_server_failover', 5), ('stale_record_failover', 3),
    ('m_probe', 0), ('bucket_deleted_failover', 2),
    ('undefined_server_event', 4), ('reparent_to_undefined_rack', 2),
    ('detach_then_touch_server', 5), ('reparent_loaded', 5),
    ('identity_handover_crash', 3), ('relimit_generation', 5),
    ('identity_evict_restore', 3), ('drop_giants', 0),
    ('delete_then_apps_event', 3), ('move_partition', 3),
    ('lease_squeeze_failover', 3), ('flap_then_place', 5),
    ('resize_mixed', 3), ('frozen_then_presence_lost', 3),
    ('trait_lost_then_place', 3), ('stale_presence_snapshot', 3),
    ('overlapping_blackouts', 3), ('frozen_node_restart', 3),
    ('blackout_near_miss', 3), ('reload_race', 3),
    ('identity_shrink_regrow', 3), ('drop_group_members', 0),
    ('late_event', 3), ('blackout_then_failover', 3),
    ('trait_gained_then_probe', 0), ('reload_vanish', 3),
    ('rack_reparent', 3), ('stale_absence_snapshot', 3),
]


def server_spec(rng, cfg, name):
    racks = [r for _p, rs in cfg['topology'] for r in rs]
    mem = rng.randint(cfg['cap_lo'], cfg['cap_hi']) * 256
    traits = [t for t in cfg['traits'] if rng.random() < 0.4]
    # a trait the node reports itself, not listed in the cell's /traits
    if cfg.get('node_traits') and rng.random() < 0.4:
        # (one or several at once)
        traits.extend(rng.sample(cfg['node_traits'],
                                 rng.randint(1, len(cfg['node_traits']))))
    return {'name': name, 'parent': rng.choice(racks),
            'partition': rng.choice(cfg['partitions']),
            'memory': rng.choice(CAP_SPELL)(mem),
            'cpu': rng.choice(CPU_SPELL)(
                rng.randint(cfg['cap_lo'], cfg['cap_hi']) * 10),
            'disk': rng.choice(CAP_SPELL)(
                rng.randint(cfg['cap_lo'], cfg['cap_hi']) * 256),
            'traits': traits,
            'up_since': cfg['start'] - rng.choice([0, 3600, DAY, 5 * DAY,
                                                   19 * DAY])}


def gen_allocations(rng, cfg):
    out = []
    for part in cfg['partitions']:
        for i in range(rng.randint(0, 2)):
            tenant = 't%d' % i
            for j in range(rng.randint(1, 2)):
                name = '%s/a%d' % (tenant, j) if rng.random() < 0.6 \
                    else '%s:x/a%d' % (tenant, j)
                alloc = {
                    'name': name, 'partition': part,
                    'memory': '%dM' % (rng.randint(0, cfg['cap_hi']) * 256),
                    'cpu': '%d%%' % (rng.randint(0, cfg['cap_hi']) * 10),
                    'disk': '%dM' % (rng.randint(0, cfg['cap_hi']) * 256),
                    'rank': rng.choice([100, 100, 50, 10, 0]),
                    'rank_adjustment': rng.choice([0, 0, 10]),
                    'max_utilization': rng.choice([None, None, 1.0, 2.0]),
                    'traits': ([rng.choice(cfg['traits'] +
                                           cfg.get('node_traits', []))]
                               if (cfg['traits'] or cfg.get('node_traits'))
                               and rng.random() < 0.25 else []),
                    'assignments': [],
                }
                for proid in cfg['proids']:
                    if rng.random() < 0.6:
                        alloc['assignments'].append({
                            'pattern': '%s.%s' % (proid, rng.choice(
                                ['*', '*', 'web*', 'db*'])),
                            'priority': rng.choice([1, 10, 50])})
                # optional keys may be absent rather than null
                for key in ('max_utilization', 'rank_adjustment', 'traits'):
                    if not alloc[key] and rng.random() < 0.5:
                        del alloc[key]
                out.append(alloc)
    return out


def make_config(prop, tier, rng):
    big = tier == 'thorough'
    cfg = {'start': 1700000000.0 + rng.randint(0, 7 * 86400), 'tier': tier}
    npods = rng.randint(1, 2)
    topology = []
    for p in range(npods):
        topology.append(['pod:p%d' % p, ['rack:p%dr%d' % (p, r)
                                         for r in range(rng.randint(1, 2))]])
    if rng.random() < 0.3:
        # bucket ids are free form: "<level>:<site>:<id>" is as good as
        # "<level>:<id>"
        topology = [[pod.replace(':', ':dc1:', 1),
                     [r.replace(':', ':dc1:', 1) for r in racks]]
                    for pod, racks in topology]
    cfg['topology'] = topology
    nparts = rng.choice([1, 2, 2])
    cfg['partitions'] = ['_default'] + ['part%d' % i for i in range(1, nparts)]
    cfg['traits'] = ['t%d' % i for i in range(rng.choice([0, 1, 2]))]
    cfg['node_traits'] = ['nt%d' % i
                          for i in range(rng.choice([0, 1, 2, 2, 3]))]
    cfg['proids'] = ['proid%d' % i for i in range(rng.randint(1, 3))]
    cfg['cap_lo'] = rng.choice([2, 4])
    cfg['cap_hi'] = rng.choice([6, 10])
    cfg['dem_hi'] = rng.choice([2, 4, 6])
    cfg['retention'] = rng.random() < 0.6
    cfg['leases'] = rng.random() < 0.5
    ngroups = rng.choice([0, 1, 2])
    cfg['group_names'] = ['g%d' % i for i in range(ngroups)]
    cfg['groups'] = [[g, rng.choice([0, 1, 2, 3])] for g in cfg['group_names']
                     if rng.random() < 0.8]
    aff_limits = {}
    for proid in cfg['proids']:
        for app in ('web', 'db', 'job'):
            if rng.random() < 0.4:
                aff_limits['%s.%s' % (proid, app)] = {
                    lv: rng.randint(1, 3)
                    for lv in ('server', 'rack', 'pod', 'cell')
                    if rng.random() < 0.5}
    cfg['aff_limits'] = aff_limits
    cfg['allocations'] = gen_allocations(rng, cfg) \
        if rng.random() < 0.7 else None
    servers = []
    for i in range(rng.randint(2, 6 if big else 5)):
        spec = server_spec(rng, cfg, 's%d' % (i + 1))
        spec['up'] = rng.random() < 0.85
        servers.append(spec)
    cfg['servers'] = servers
    cfg['n_ops'] = rng.randint(10, 70 if big else 45)
    wmul = {}
    for key, _w in OP_WEIGHTS:
        wmul[key] = rng.choice([0.0, 0.5, 1.0, 1.0, 2.0]) \
            if key not in ('app_create', 'master_cycle', 'process',
                           'drain') else rng.choice([0.7, 1.0, 1.5])
    cfg['wmul'] = wmul
    # ZooKeeper promises no order of the children it lists: an arbitrary but
    # fixed order per run (None: sorted by name)
    cfg['child_order'] = rng.getrandbits(32) if rng.random() < 0.5 else None
    if prop == 'C02':
        cfg['m_probe_weight'] = 14
        cfg['wmul']['trait_gained_then_probe'] = 1.0
    if prop == 'C10':
        # (few runs per batch: the scenario made for it is not left to luck)
        cfg['wmul']['reload_vanish'] = 4.0
    if prop != 'C10':
        # (C10 enumerates the crash points itself)
        cfg['p_cycle_crash'] = rng.choice([0.0, 0.0, 0.05, 0.12])
    if prop in LOOP_PROPS:
        # loop tier (engines/masterloop.py): the real run_loop / watch
        cfg['loop'] = rng.random() < 0.3
    if prop in INTRUDE_PROPS:
        # world events that land between two ZooKeeper calls of one master
        # step
        cfg['p_intrude'] = rng.choice([0.0, 0.0, 0.1, 0.3])
    return cfg


class MasterSim(enginemod.Engine):
    name = 'mastersim'
    serves = ('C09', 'C10', 'C11') + CELL_PROPS
    real_components = (
        'treadmill.scheduler.master.Master (create_rootns, load_model, '
        'init_schedule, process and every event handler, reschedule, '
        'check_placement_integrity, check_integrity, tick/check reboots)',
        'treadmill.scheduler.loader.Loader', 'treadmill.scheduler (Cell...)',
        'treadmill.scheduler.zkbackend.ZkBackend', 'treadmill.zkutils',
        'treadmill.scheduler.masterapi (event source)', 'treadmill.traits',
        'treadmill.utils unit parsers', 'treadmill.trace.post_zk',
        'loop tier (engines/masterloop.py, 30% of the runs except C02/C10): '
        'Master.run_loop, Master.watch, attach_watchers, store_timezone, '
        'the process_complete hand-shake and kazoo.recipe.watchers.'
        'ChildrenWatch, on real threads parked and released one at a time '
        'by the seeded driver',
    )
    stub_components = (
        'ZooKeeper: simkit.zk (single-copy, linearizable, sessions, '
        'ephemerals, sequence nodes, watches)',
        'clock (virtual)',
        'stepping tier only - Master.watch/run_loop glue: the simulator plays the four '
        'children watchers (one outstanding snapshot per path, FIFO) and '
        'calls the step functions in run_loop order',
        'Master.run (leader election lock): not simulated, one master at a '
        'time', 'loop tier: Loader.save_state_reports (pandas reports no '
        'property reads) is a no-op',
        'trace posting to the local events dir is off (app_events_dir=None)',
    )

    def level(self, prop):
        return 'fault_enumeration' if prop == 'C10' else 'exploration'

    def rule(self, prop):
        base = ('seeded cell definition and op mix per run; ops are ZooKeeper-'
                'level events produced through the real masterapi plus '
                'presence sessions appearing/expiring, interleaved with the '
                'master being stepped (snapshot/process/cycle/integrity/'
                'restart); ')
        if prop == 'C09':
            return base + ('after every reschedule and every start the whole '
                           '/placement tree is compared with the model; '
                           'non-trivial: a master cycle that performed more '
                           'than two storage writes')
        if prop in CELL_PROPS:
            return base + ('every cell.schedule() the real Master runs is '
                           'observed and checked with the same oracle as in '
                           'cellsim, against the harness\'s own parse of the '
                           'ZooKeeper records the master loaded (own unit '
                           'parser: 1G = 1024M, 100% = 100); non-trivial as '
                           'in cellsim')
        if prop == 'C10':
            return base + ('for one publication step per history (a '
                           'reschedule or the init_schedule of a start) every '
                           'storage write k and both applied/not-applied is '
                           're-executed with a crash there, followed by a '
                           'restart; non-trivial: a crash variant that landed '
                           'strictly inside the publication (0 < k < W)')
        return base + ('after every completed cycle a fresh Master runs '
                       'load_model() on a copy of the tree; non-trivial: a '
                       'probe with at least one stored placement')

    def assumptions(self, prop):
        return ['ZooKeeper is a single-copy linearizable store',
                'one master at a time (the election lock is not simulated)',
                'stepping tier: the watcher/queue discipline of Master.watch '
                'is modelled by the harness (one outstanding snapshot per '
                'path); loop tier (30% of the runs of C01, C03-C06, C08, C09, '
                'C11): Master.run_loop, watch, attach_watchers and the kazoo '
                'ChildrenWatch recipe are executed on three threads with '
                'strict baton passing - the seeded driver decides at every '
                'queue.popleft(), time.sleep() and process_complete.wait() '
                'which thread runs; save_state_reports is stubbed there']

    def irrelevant_probes(self, prop):
        out = {'integrity_repairs', 'schedule_once_removed', 'server_reloads'}
        if prop != 'C10':
            out |= {'crash_variants', 'crash_mid_publication',
                    'double_crash_variants'}
        else:
            # (the pending-start check is not part of a publication)
            out |= {'pending_start_freeze'}
        if prop != 'C11':
            out |= {'restart_probes', 'restart_probes_strong',
                    'entries_strong'}
        if prop not in ('C09', 'C10'):
            out |= {'placements_checked'}
        return out

    def quick_runs(self, prop):
        return {'C09': 3200, 'C10': 160, 'C11': 1600}.get(prop, 1600)

    def make_config(self, prop, tier, rng):
        return make_config(prop, tier, rng)

    # -- plain execution of an op list / generation
    def _run(self, prop, config, seed, ops, keep_log, gen_limit=None):
        res = enginemod.Result()
        log = logmod.EventLog(keep=keep_log)
        log.ev('seed', seed, prop)
        clock = clockmod.Clock(config['start'])
        clock.install()
        saved_exit = utils.sys_exit
        utils.sys_exit = _sys_exit
        global _TRUTH
        world = None
        try:
            world = World(config, clock, prop, log)
            if prop in CELL_PROPS:
                cellobs.install()
                _install_freeze_wrapper()
                cellobs.set_cycle_hook(world.cycle_hook)
            t_begin = clock.peek()
            executed = []
            n = 0

            def do(op):
                nonlocal n
                n += 1
                world.step = n
                executed.append(op)
                log.ev('op', op)
                world.apply(op)

            do({'op': 'restart'})
            if ops is None:
                gen = Generator(config, rngmod.Streams(seed))
                while world.violation is None and n < gen_limit:
                    if world.master is None:
                        do({'op': 'restart'})
                        continue
                    do(gen.next_op(world))
                if world.violation is None:
                    for op in ({'op': 'drain'}, {'op': 'master_cycle'}):
                        if world.violation is None:
                            if world.master is None:
                                do({'op': 'restart'})
                            do(op)
            else:
                for op in ops[1:] if ops and ops[0].get('op') == 'restart' \
                        else ops:
                    if world.violation is not None:
                        break
                    do(op)
            res.ops = executed
            res.violation = world.violation
            res.steps = n
            res.sim_s = clock.peek() - t_begin
            res.faults = dict(world.faults)
            res.probes = dict(world.probes)
            for where, cnt in world.died.items():
                res.probes['died@' + where] = cnt
            res.fps = world.fps
            res.nontrivial = world.nontrivial
            res.trace_fp = logmod.fingerprint(executed)
            if world.violation is not None:
                log.ev('violation', world.violation['sig'])
            res.digest = log.digest()
            res.log_lines = log.lines if keep_log else None
            res.extra['world'] = world
        finally:
            if world is not None:
                world.loop_stop()
            utils.sys_exit = saved_exit
            clock.uninstall()
            cellobs.set_cycle_hook(None)
            cellobs.set_recorder(None)
            _TRUTH = None
        return res

    def execute(self, prop, config, seed, ops=None, keep_log=False):
        if prop == 'C10':
            return self._execute_c10(config, seed, ops, keep_log)
        res = self._run(prop, config, seed, ops, keep_log,
                        gen_limit=config['n_ops'])
        res.extra = {}
        return res

    # -- C10: crash enumeration
    def _execute_c10(self, config, seed, ops, keep_log):
        if ops is not None:
            res = self._run('C10', config, seed, ops, keep_log)
            res.extra = {}
            return res
        # 1. a fault-free history (its own C09/C10 oracle is active)
        base = self._run('C10', config, seed, None, False,
                         gen_limit=config['n_ops'])
        world = base.extra.pop('world')
        base.extra = {}
        if base.violation is not None:
            return base
        history = base.ops
        # 2. choose a publication step: the cycle/start with most writes
        rng = rngmod.Streams(seed).get('crashpoint')
        cands = [i for i, op in enumerate(history)
                 if op['op'] in ('master_cycle', 'restart') and i > 0]
        if not cands:
            return base
        total = enginemod.Result()
        total.ops = history
        total.faults = dict(base.faults)
        total.probes = dict(base.probes)
        total.fps = list(base.fps)
        total.steps = base.steps
        total.sim_s = base.sim_s
        digests = [base.digest]
        thorough = config.get('tier') == 'thorough'
        picks = list(cands) if thorough else \
            rng.sample(cands, min(len(cands), 2))
        if not thorough:
            # steps a scenario marked as the point of the exercise
            focus = [i for i in cands if history[i].get('focus')]
            picks = sorted(set(picks) | set(focus[:2]))
        rng2 = rngmod.Streams(seed).get('crashpoint2')

        def account(res, inside):
            total.steps += res.steps
            total.sim_s += res.sim_s
            total.probes['crash_variants'] += 1
            if inside:
                total.probes['crash_mid_publication'] += 1
                total.nontrivial += 1
            total.faults['master_crash'] = \
                total.faults.get('master_crash', 0) + 1
            total.fps.extend(res.fps)
            digests.append(res.digest)
            if res.violation is not None:
                res.probes = total.probes
                res.faults = total.faults
                res.nontrivial = total.nontrivial
                res.steps = total.steps
                res.sim_s = total.sim_s
                res.fps = total.fps
                return res
            return None

        for j in sorted(picks):
            # dry run: number of storage writes of step j
            probe_ops = history[:j] + [dict(history[j], count_writes=True)]
            dry = self._run('C10', config, seed, probe_ops, False)
            w = dry.extra.pop('world')
            nwrites = getattr(w, 'last_step_writes', 0)
            dry.extra = {}
            if not nwrites:
                continue
            for k in range(1, nwrites + 1):
                for applied in (False, True):
                    crashed = history[:j] + [
                        dict(history[j], crash_at=k, applied=applied)]
                    variant = crashed + [{'op': 'recover'}]
                    res = self._run('C10', config, seed, variant, keep_log)
                    w1 = res.extra.pop('world')
                    res.extra = {}
                    inside = (1 < k < nwrites or (k == 1 and applied) or
                              (k == nwrites and not applied))
                    bad = account(res, inside)
                    if bad is not None:
                        return bad
                    if not thorough:
                        continue
                    # second crash: during the recovery's own start
                    n2 = getattr(w1, 'last_step_writes', 0)
                    if not n2:
                        continue
                    for k2 in sorted(rng2.sample(range(1, n2 + 1),
                                                 min(n2, 3))):
                        applied2 = rng2.random() < 0.5
                        variant2 = crashed + [
                            {'op': 'recover', 'crash_at': k2,
                             'applied': applied2}, {'op': 'recover'}]
                        res2 = self._run('C10', config, seed, variant2,
                                         keep_log)
                        res2.extra = {}
                        total.probes['double_crash_variants'] = \
                            total.probes.get('double_crash_variants', 0) + 1
                        bad = account(res2, True)
                        if bad is not None:
                            return bad
        total.trace_fp = logmod.fingerprint(history)
        total.digest = logmod.canon(digests)[-64:] if False else \
            str(logmod.fingerprint(digests))
        return total


ENGINE = MasterSim()
