"""Loop tier of mastersim: the repo's own Master.run_loop / Master.watch /
attach_watchers are *executed*, not modelled.

Three real threads with strict baton passing (exactly one runs at any time,
the driver decides which; so a run is still a pure function of the seed):

  driver   the simulator (generator, world ops, oracles)
  master   runs Master.run_loop() of the code under test.  It hands the baton
           back wherever the production main loop can be overtaken by the
           watcher thread in a way that matters: before every
           queue.popleft() and inside every time.sleep().
  handler  plays kazoo's single callback thread: delivers the master
           session's watch events one at a time through the real kazoo
           ChildrenWatch recipe into the closure Master.watch() registered.
           That closure blocks in process_complete[path].wait() until the
           main loop has processed the event - the handler then hands the
           baton back and stays parked, which (as in production) also holds
           up every other watch delivery of the session.

What the stepping tier (mastersim.World.op_snap/op_process/op_master_cycle)
models - one outstanding event per path, a cycle when the master is not up to
date, integrity check, reboot ticks - follows here from run_loop's own
control flow, its intervals and `up_to_date`.
"""

import collections
import threading
import traceback

import simkit
from simkit import SimCrash, SimProcessExit

from treadmill import zknamespace as z
from treadmill.scheduler import master as mastermod


class _Abort(BaseException):
    """Unwinds a parked thread of a master that is gone."""


class Co:
    """A thread that only runs between resume() and its next yield_()."""

    def __init__(self, name, body):
        self.name = name
        self._go = threading.Semaphore(0)
        self._back = threading.Semaphore(0)
        self.done = False
        self.started = False
        self.abort = False
        self.outcome = None           # (kind, payload) once done
        self._body = body
        self.thread = threading.Thread(target=self._main, name=name,
                                       daemon=True)

    def _main(self):
        self._go.acquire()
        try:
            if not self.abort:
                self.outcome = self._body()
        except _Abort:
            self.outcome = ('aborted', None)
        except BaseException as err:  # pylint: disable=broad-except
            self.outcome = ('harness', err)
        finally:
            self.done = True
            self._back.release()

    def resume(self):
        """Driver side: run the thread up to its next yield (or its end)."""
        if self.done:
            return
        if not self.started:
            self.started = True
            self.thread.start()
        self._go.release()
        self._back.acquire()

    def yield_(self):
        """Thread side: hand the baton back and wait to be resumed."""
        self._back.release()
        self._go.acquire()
        if self.abort:
            raise _Abort()

    def kill(self):
        if self.done:
            return
        self.abort = True
        if not self.started:
            self.done = True
            return
        self._go.release()
        self._back.acquire()
        self.thread.join(5)


class YieldDeque(collections.deque):
    """Master.queue: popleft() is a point where the watcher thread may have
    run in between (an append lands before or after it)."""

    loop = None

    def popleft(self):
        loop = self.loop
        if loop is not None and \
                threading.current_thread() is loop.master_co.thread:
            loop.at = 'popleft'
            loop.master_co.yield_()
        return collections.deque.popleft(self)

    def append(self, item):
        loop = self.loop
        if loop is not None:
            loop.on_queued(item)
        collections.deque.append(self, item)


class Loop:
    """One running master process (main thread + callback thread)."""

    def __init__(self, world, master, client, fault):
        self.world = world
        self.master = master
        self.client = client
        self.phase = 'start'
        self.at = None                # where the master thread is parked
        self.started = False          # init_schedule has completed
        self.fault = fault            # crash plan for the start
        self.cycle_crash = None       # crash plan for the next reschedule
        self.cycles = 0
        self.integrity_runs = 0
        self.ticks = 0
        self.handler_parked_on = None
        self.sid = client._session.sid
        master.queue = YieldDeque()
        master.queue.loop = self
        self.master_co = Co('master', self._master_body)
        self.handler_co = Co('handler', self._handler_body)
        client.pump = self._pump
        self._wrap()

    # -- wrappers: phases, crash plans, the oracle after a cycle
    def _wrap(self):
        world = self.world
        master = self.master
        client = self.client
        loop = self

        load_model = master.load_model
        init_schedule = master.init_schedule
        process = master.process
        reschedule = master.reschedule
        integrity = master.check_placement_integrity
        check_integrity = master.check_integrity
        tick = master.tick_reboots
        reboot = master.check_reboot

        def w_load_model():
            loop.start_base = client.nwrites
            if loop.fault is not None:
                client.fault_plan = dict(loop.fault,
                                         at=client.nwrites + loop.fault['at'])
            load_model()

        def w_init_schedule():
            if world.truth is not None:
                world.truth_load_all()
            try:
                init_schedule()
            finally:
                client.fault_plan = None
                world.last_step_writes = client.nwrites - loop.start_base
            loop.started = True
            loop.phase = 'loop'

        def w_process(event):
            loop.phase = 'process'
            path, children = event
            node = world.zk.nodes.get(path)
            if node is not None and sorted(node.children) != sorted(children):
                world.probes['stale_snapshot_processed'] += 1
            events = world.lt_process_begin(path, children)
            held_before = {name: sorted(srv.apps)
                           for name, srv in master.servers.items()
                           if srv.apps} if world.prop == 'C08' else {}
            done = False
            try:
                raw = getattr(mastermod.Master.process, '__wrapped__', None)
                if raw is not None:
                    raw(master, event)
                else:
                    process(event)
                done = True
            finally:
                world.lt_process_end(path, children, events, done)
            world.check_no_server_dropped(master, held_before)
            world.probes['events_processed'] += 1
            loop.phase = 'loop'

        def w_reschedule():
            loop.phase = 'reschedule'
            world.probes['master_cycles'] += 1
            loop.pre = (world.caught_up(), client.nwrites)
            world.dups_before = world.duplicates()
            if loop.cycle_crash is not None:
                plan, loop.cycle_crash = loop.cycle_crash, None
                client.fault_plan = {'at': client.nwrites + plan[0],
                                     'kind': 'crash', 'applied': plan[1]}
            reschedule()

        def w_integrity():
            loop.phase = 'check_placement_integrity'
            try:
                integrity()
            finally:
                client.fault_plan = None
            caught_up, before = loop.pre
            nwrites = client.nwrites - before
            world.last_step_writes = nwrites
            world.probes['reschedules'] += 1
            world.probes['placement_writes'] += nwrites
            world.cycles_since_start += 1
            if nwrites > 2:
                world.nontrivial += 1
            loop.cycles += 1
            loop.phase = 'loop'
            world.master = master
            world.after_cycle('cycle', caught_up)

        def w_check_integrity():
            loop.phase = 'check_integrity'
            down_before = world.lt_integrity_begin()
            done = False
            try:
                check_integrity()
                done = True
            finally:
                world.lt_integrity_end(down_before, done)
            loop.integrity_runs += 1
            loop.phase = 'loop'

        def w_tick():
            loop.phase = 'tick_reboots'
            tick()
            loop.ticks += 1
            loop.phase = 'loop'

        def w_reboot():
            loop.phase = 'check_reboot'
            reboot()
            loop.phase = 'loop'

        master.load_model = w_load_model
        master.init_schedule = w_init_schedule
        master.process = w_process
        master.reschedule = w_reschedule
        master.check_placement_integrity = w_integrity
        master.check_integrity = w_check_integrity
        master.tick_reboots = w_tick
        master.check_reboot = w_reboot
        if not self.world.config.get('loop_reports'):
            # pandas reports written to ZooKeeper once a minute: no property
            # reads them (stub, named in the evidence)
            master.save_state_reports = lambda: None

    # -- thread bodies
    def _classify(self, run):
        try:
            run()
            return ('returned', None)
        except SimCrash:
            return ('crash', None)
        except SimProcessExit as err:
            return ('died', (self.phase, err))
        except simkit.HarnessError as err:
            return ('harness', err)
        except _Abort:
            return ('aborted', None)
        except Exception as err:  # pylint: disable=broad-except
            tbk = traceback.extract_tb(err.__traceback__)
            return ('died', ('%s@%s:%s' % (self.phase, tbk[-1].name,
                                           tbk[-1].line), err))

    def _master_body(self):
        raw = getattr(mastermod.Master.run_loop, '__wrapped__', None)
        if raw is not None:
            return self._classify(lambda: raw(self.master))
        return self._classify(self.master.run_loop)

    def _handler_body(self):
        server = self.world.zk

        def run():
            while True:
                if server.pending(self.sid):
                    server.deliver(self.sid, 1)
                else:
                    self.handler_co.yield_()
        kind, payload = self._classify(run)
        if kind == 'died':
            payload = ('watcher:' + payload[0], payload[1])
        return (kind, payload)

    def _pump(self, event, _timeout):
        """SimEvent.wait() of the master's session."""
        if threading.current_thread() is not self.handler_co.thread:
            raise simkit.HarnessError(
                'loop tier: wait() outside the callback thread')
        self.handler_parked_on = event
        probes = self.world.probes
        probes['loop_watcher_blocked'] = \
            probes.get('loop_watcher_blocked', 0) + 1
        try:
            while not event.is_set():
                self.handler_co.yield_()
        finally:
            self.handler_parked_on = None

    def on_sleep(self, _seconds):
        if threading.current_thread() is self.master_co.thread:
            probes = self.world.probes
            probes['loop_main_sleeps'] = probes.get('loop_main_sleeps', 0) + 1
            self.at = 'sleep'
            self.master_co.yield_()

    def on_queued(self, item):
        probes = self.world.probes
        probes['loop_watch_deliveries'] = \
            probes.get('loop_watch_deliveries', 0) + 1
        path = item[0]
        node = self.world.zk.nodes.get(path)
        if node is not None:
            self.world.seen_cversion[path] = node.cversion

    # -- driver side
    def handler_runnable(self):
        if self.handler_co.done:
            return False
        if self.handler_parked_on is not None:
            return self.handler_parked_on.is_set()
        return bool(self.world.zk.pending(self.sid))

    def run_handler(self):
        """One delivery (or the end of one) on the callback thread."""
        if not self.handler_runnable():
            return False
        self.handler_co.resume()
        return True

    def step_master(self):
        self.master_co.resume()

    def shutdown(self):
        self.client.pump = None
        self.master.queue.loop = None
        self.handler_co.kill()
        self.master_co.kill()


# ----------------------------------------------------------------------
# World side (mixed into mastersim.World by name)

LOOP_OPS = {'snap': 'lop_snap', 'process': 'lop_step',
            'master_cycle': 'lop_cycle', 'integrity': 'lop_integrity',
            'tick': 'lop_tick', 'drain': 'lop_drain',
            'm_probe': 'lop_m_probe'}


class LoopWorld:
    """Methods of mastersim.World used when config['loop'] is set."""

    loop = None

    def loop_start_master(self, fault=None):
        from engines import mastersim as ms
        self.loop_stop()
        self.master_gen += 1
        self.untold_servers.clear()
        self.told_buckets = set(self.zk.children(z.BUCKETS) or [])
        self.held_servers = {name for name in self.zk.children(z.SERVERS)
                             or [] if self._master_can_load(name)}
        if self.master_client is not None:
            self.zk.expire(self.master_client.client_id[0])
        client = self.zk.connect('master%d' % self.master_gen)
        self.master_client = client
        if self.pending_intrusion is not None:
            self._arm_intrusion(self.pending_intrusion)
        self.master = None
        self.seen_cversion = {}
        master = mastermod.Master(ms.zkbackend.ZkBackend(client), 'cell')
        self.cur_cell = master.cell
        self.lt_new_truth()
        loop = Loop(self, master, client, fault)
        self.loop = loop
        self.queue = master.queue
        self.clock.on_sleep = loop.on_sleep
        loop.step_master()            # up to the first popleft of the loop
        if not self._loop_outcome(starting=True):
            return False
        self.master = master
        self.probes['starts'] += 1
        self.probes['loop_starts'] = self.probes.get('loop_starts', 0) + 1
        self.cycles_since_start = 0
        self.dirty_since_cycle = False
        return True

    def loop_stop(self):
        if self.loop is not None:
            self.loop.shutdown()
            self.loop = None
            self.clock.on_sleep = None

    def _loop_outcome(self, starting=False):
        """After the master (or callback) thread ran: is the process still
        there?  Mirrors op_restart / op_master_cycle / op_process."""
        from engines import mastersim as ms
        loop = self.loop
        for co in (loop.master_co, loop.handler_co):
            if not co.done:
                continue
            kind, payload = co.outcome
            started = loop.started
            self.loop_stop()
            self.master = None
            if kind == 'harness':
                raise simkit.HarnessError('loop tier: %r' % (payload,))
            if kind == 'crash':
                self.faults['master_crash'] += 1
                self.zk.expire(self.master_client.client_id[0])
                self.check_no_duplicates(
                    'crash-in-start' if not started else 'crash-in-cycle')
                return False
            if kind == 'died':
                err = ms.MasterDied(payload[0], payload[1])
                if not started and self.intrusion_fired:
                    self.on_master_died(err)
                    return False
                if not started:
                    self.fail('%s:master-cannot-start:%s' % (
                        self.prop if self.prop in ('C09', 'C10', 'C11')
                        else 'C09', err.where.split(':')[0].split('@')[0]),
                        '%s' % err)
                    return False
                self.on_master_died(err)
                return False
            if kind == 'returned':
                raise simkit.HarnessError('loop tier: run_loop returned')
            return False
        return True

    def _loop_alive(self):
        return self.loop is not None and self.master is not None

    def _loop_step(self, handler_first=True):
        """Callback thread if it can run, then the main thread once."""
        loop = self.loop
        if handler_first:
            while loop.run_handler():
                if not self._loop_outcome():
                    return False
        loop.step_master()
        return self._loop_outcome()

    # -- the master-stepping ops, expressed through run_loop
    def op_lop_snap(self, _op):
        """A watch delivery: the callback thread runs if it can."""
        if not self._loop_alive():
            return
        if self.loop.run_handler():
            self._loop_outcome()

    def op_lop_step(self, op):
        if not self._loop_alive():
            return
        self._loop_step(handler_first=not op.get('lazy'))

    def _loop_until(self, done, limit=60):
        for _ in range(limit):
            if not self._loop_alive() or self.violation is not None:
                return
            if done():
                return
            if not self._loop_step():
                return

    def op_lop_cycle(self, op):
        self.last_step_writes = 0
        if not self._loop_alive():
            return
        loop = self.loop
        if op.get('crash_at') is not None:
            loop.cycle_crash = (op['crash_at'], bool(op.get('applied')))
        self.clock.advance(mastermod._SCHEDULER_INTERVAL)
        before = loop.cycles
        sleeps = [0]

        def done():
            if loop.cycles > before:
                return True
            if loop.at == 'sleep':
                sleeps[0] += 1
            return sleeps[0] >= 2
        self._loop_until(done)
        if self.loop is loop:
            loop.cycle_crash = None

    def op_lop_integrity(self, _op):
        if not self._loop_alive():
            return
        from treadmill import scheduler
        loop = self.loop
        master = self.master
        frozen_before = {n for n, s in master.servers.items()
                         if s.state is scheduler.State.frozen}
        self.clock.advance(mastermod._INTEGRITY_CHECK_INTERVAL)
        before = loop.integrity_runs
        self._loop_until(lambda: loop.integrity_runs > before)
        if self.master is master:
            frozen_after = {n for n, s in master.servers.items()
                            if s.state is scheduler.State.frozen}
            self.probes['pending_start_freeze'] += len(frozen_after -
                                                       frozen_before)

    def op_lop_tick(self, _op):
        if not self._loop_alive():
            return
        loop = self.loop
        self.clock.advance(mastermod._REBOOT_TICK_INTERVAL)
        before = loop.ticks
        self._loop_until(lambda: loop.ticks > before)

    def op_lop_drain(self, _op):
        """Until the main loop sleeps on an empty queue with nothing left
        to deliver."""
        for _ in range(400):
            if not self._loop_alive() or self.violation is not None:
                return
            loop = self.loop
            if loop.at == 'sleep' and not self.master.queue and \
                    not loop.handler_runnable() and \
                    loop.handler_parked_on is None:
                return
            if not self._loop_step():
                return

    def loop_caught_up(self):
        from engines import mastersim as ms
        loop = self.loop
        if loop is None or self.master is None or self.master.queue:
            return False
        if self.zk.pending(loop.sid):
            return False
        for path in ms.WATCHED:
            node = self.zk.nodes.get(path)
            if node is not None and \
                    self.seen_cversion.get(path) != node.cversion:
                return False
        if self.zk.children(z.EVENTS):
            return False
        return True

    # -- C02 through run_loop: nobody tells the master to run a cycle
    def op_lop_m_probe(self, op):
        """The cell is brought to rest, one new instance is submitted, and
        run_loop by itself - watch delivery, process, `up_to_date`, the
        scheduler interval - must have placed it within a few intervals if
        the harness's own scan of the records finds a server that fits."""
        from engines import mastersim as ms
        from treadmill.scheduler import masterapi
        if self.prop != 'C02' or not self._loop_alive():
            return
        interval = mastermod._SCHEDULER_INTERVAL

        def settle():
            self.op_lop_drain({})
            if not self._loop_alive():
                return False
            self.clock.advance(interval)
            self.op_lop_drain({})
            return self._loop_alive() and self.violation is None

        quiet = False
        for _ in range(4):
            if not settle():
                return
            before = self.placement_digest()
            if not settle():
                return
            if self.master.up_to_date and self.loop_caught_up() and \
                    self.placement_digest() == before:
                quiet = True
                break
        if quiet and self.master.cell.next_event_at < \
                self.clock.peek() + 4 * interval + 5.0:
            quiet = False             # something is about to expire
        blacklist = self._zk_obj(z.BLACKEDOUT_APPS)
        if not quiet or blacklist:
            self.probes['probe_not_quiescent'] = \
                self.probes.get('probe_not_quiescent', 0) + 1
            return
        manifest = op['manifest']
        inst = masterapi.create_apps(self.admin, op['app_id'], manifest, 1)[0]
        fit = self._m_probe_fits(inst, manifest)
        placed = False
        app = None
        for _ in range(3):
            if not settle():
                return
            app = self.master.cell.apps.get(inst)
            placed = app is not None and app.server is not None
            if placed:
                break
        if app is None or app.priority != 1:
            fit = None                # not loaded as asked: nothing to judge
        if fit is not None:
            self.probes['probe_fit'] = self.probes.get('probe_fit', 0) + 1
            self.probes['loop_probe_fit'] = \
                self.probes.get('loop_probe_fit', 0) + 1
            self.nontrivial += 1
            if not placed:
                self.fail('C02:fits-but-pending:master-level',
                          'probe %s %r fits server %s (free %r by the '
                          'records) but run_loop left it pending for three '
                          'scheduler intervals' % (
                              inst, manifest, fit[0], fit[1]))
                return
        else:
            self.probes['probe_nofit'] = self.probes.get('probe_nofit', 0) + 1
        self.log.ev('m_probe', inst, fit[0] if fit else None, placed)
        masterapi.delete_apps(self.admin, [inst])
        settle()
