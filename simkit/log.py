"""Event log with a running digest (DESIGN.md 2.1, 2.7).

Logging never draws from a PRNG and never reads a clock; callers pass the
virtual time they already hold if they want it recorded.
"""

import hashlib
import json


def canon(obj):
    return json.dumps(obj, sort_keys=True, separators=(',', ':'), default=_default)


def _default(obj):
    # numpy scalars / arrays, sets (sorted), bytes
    try:
        import numpy as np
        if isinstance(obj, np.ndarray):
            return [float(x) for x in obj]
        if isinstance(obj, np.generic):
            return obj.item()
    except ImportError:  # pragma: no cover
        pass
    if isinstance(obj, (set, frozenset)):
        return sorted(obj, key=repr)
    if isinstance(obj, bytes):
        return obj.decode('latin1')
    return repr(obj)


class EventLog:
    def __init__(self, keep=False, keep_max=200000):
        self._h = hashlib.blake2b(digest_size=16)
        self.keep = keep
        self.keep_max = keep_max
        self.lines = []
        self.count = 0

    def ev(self, kind, *fields):
        line = canon([kind] + list(fields))
        self._h.update(line.encode('utf-8'))
        self._h.update(b'\n')
        self.count += 1
        if self.keep and len(self.lines) < self.keep_max:
            self.lines.append(line)

    def digest(self):
        return self._h.hexdigest()


def fingerprint(obj):
    """63-bit fingerprint of a JSON-able abstract state."""
    h = hashlib.blake2b(canon(obj).encode('utf-8'), digest_size=8)
    return int.from_bytes(h.digest(), 'big') >> 1
