"""cellsim: the real scheduler.Cell under seeded histories (C01-C08).

System under simulation: treadmill.scheduler (Cell, Bucket, Server,
Application, Allocation, Partition, IdentityGroup, feasibility tracker,
strategies), driven through the same public calls Loader and the unit tests
use.  Simulated: the clock.  See DESIGN.md section 3/4.
"""

import simkit
from simkit import clock as clockmod
from simkit import engine as enginemod
from simkit import log as logmod
from simkit import rng as rngmod

import numpy as np

from treadmill import scheduler

from oracles import cellobs
from oracles import cellcheck

scheduler.DIMENSION_COUNT = 3

LEVELS = ('server', 'rack', 'pod', 'cell')
DAY = 86400.0


def _vec(rng, lo, hi, scale=1):
    return [float(rng.randint(lo, hi) * scale) for _ in range(3)]


class Truth:
    """Harness-side reference facts (what the generator declared)."""

    def __init__(self):
        self.apps = {}       # name -> dict(spec) incl. 'alloc' path tuple
        self.srv = {}        # name -> dict(cap,label,traits,rack)
        self.allocs = {}     # path tuple -> dict(part,reserved,rank,adj,maxu,traits)
        self.limits = {}     # affinity -> {level: limit}
        self.groups = {}     # group -> count
        self.down = {}       # server -> (tmin, tmax)
        self.marks = {}      # app -> server it was explicitly marked on

    def capacity_of(self, sname):
        spec = self.srv.get(sname)
        return spec['cap'] if spec else None

    def demand_of(self, aname):
        spec = self.apps.get(aname)
        return spec['demand'] if spec else None

    def alloc_of(self, aname):
        return tuple(self.apps[aname]['alloc'])

    def alloc_info(self, apath):
        return self.allocs.get(tuple(apath))

    def partition_of(self, aname):
        return self.allocs[tuple(self.apps[aname]['alloc'])]['part']

    def traits_of(self, aname):
        spec = self.apps[aname]
        return spec['traits'] | self.allocs[tuple(spec['alloc'])]['traits']

    def srv_label(self, sname):
        return self.srv[sname]['label']

    def srv_traits(self, sname):
        return self.srv[sname]['traits']

    def lease_of(self, aname):
        return self.apps[aname]['lease']

    def retention_of(self, aname):
        return self.apps[aname]['drt']

    def limits_of(self, aff):
        return self.limits.get(aff, {})

    def affinity_of(self, aname):
        spec = self.apps.get(aname)
        return spec['aff'] if spec else None

    def group_of(self, aname):
        return self.apps[aname].get('group')

    def group_count(self, gname):
        return self.groups.get(gname, 0)

    def down_interval(self, sname):
        return self.down.get(sname)

    def marked(self, aname, sname):
        """Was the instance explicitly marked for unscheduling on this server
        (and has not left it since)?"""
        return self.marks.get(aname) == sname

    def why_unplaced(self, app, ctx):
        for ev in ctx.rec.events:
            if ev[0] == 'infeasible' and ev[1] == app.name:
                return 'infeasible-skip'
        if app.schedule_once and app.evicted:
            return 'schedule-once-evicted'
        return 'other'


class World:
    """The real Cell plus the harness truth; applies ops (all total)."""

    def __init__(self, config, clock, prop, log):
        self.config = config
        self.clock = clock
        self.prop = prop
        self.log = log
        self.truth = Truth()
        self.cell = scheduler.Cell('cell')
        self.buckets = {}
        self.servers = {}
        self.allocs = {}      # path tuple -> Allocation
        self.violation = None
        self.cycles = 0
        self.fps = []
        self.probes = {'cycles': 0, 'evictions': 0, 'restores': 0,
                       'restore_failed': 0, 'placements': 0,
                       'apps_on_down': 0, 'apps_on_frozen': 0,
                       'retention_expired': 0, 'probe_fit': 0,
                       'probe_nofit': 0, 'probe_not_quiescent': 0,
                       'identities_held': 0, 'renewals': 0,
                       'renew_failed': 0, 'infeasible_skips': 0,
                       'moved_partition': 0, 'beyond_cap': 0,
                       'boosted': 0, 'multi_alloc_queue': 0,
                       'renew_assert_abort': 0}
        self.faults = {'srv_down': 0, 'srv_up': 0, 'srv_frozen': 0,
                       'srv_removed': 0, 'srv_resized': 0,
                       'clock_jump': 0, 'group_shrunk': 0,
                       'group_removed': 0, 'blacklist': 0,
                       'reboot_rescheduled': 0}
        self.nontrivial = 0
        self.step = 0
        self.renewing = False
        self.aborted = False
        self._build()

    # -- construction
    def _build(self):
        cfg = self.config
        cell = self.cell
        for label in cfg['partitions']:
            cell.partitions[label] = scheduler.Partition(label=label)
        for pi, racks in enumerate(cfg['pods']):
            pod = scheduler.Bucket('pod:p%d' % pi, level='pod')
            self.buckets[pod.name] = pod
            cell.add_node(pod)
            for ri, _n in enumerate(racks):
                rack = scheduler.Bucket('rack:p%dr%d' % (pi, ri), level='rack')
                self.buckets[rack.name] = rack
                pod.add_node(rack)
        for label in cfg['partitions']:
            self.truth.allocs[(label,)] = None  # root marker (not an alloc)
        for spec in cfg['allocs']:
            self.op_alloc(spec, create=True)
        for gname, count in cfg['groups']:
            self.op_group({'name': gname, 'count': count})
        for aff, limits in cfg['affinities']:
            self.truth.limits[aff] = dict(limits)
        for spec in cfg['servers']:
            self.op_add_server(spec)

    # -- helpers
    def _alloc(self, path):
        return self.allocs.get(tuple(path))

    def fail(self, sig, detail):
        if self.violation is None:
            self.violation = {'sig': sig, 'detail': detail, 'step': self.step}

    # -- ops
    def apply(self, op):
        kind = op['op']
        try:
            getattr(self, 'op_' + kind)(op)
        except simkit.HarnessError:
            raise
        except Exception as err:  # pylint: disable=broad-except
            # The ops make the calls the Loader makes for the same event.  An
            # exception raised by the scheduler's own code there (its
            # assertions included) is the code under test failing - the
            # master would die handling the event - not a harness error.
            import traceback
            frames = traceback.extract_tb(err.__traceback__)
            own = [f for f in frames
                   if '/treadmill/' in f.filename or '/verif/' in f.filename]
            if not own or '/treadmill/' not in own[-1].filename or \
                    '/verif/' in own[-1].filename:
                raise
            self.fail('%s:exception-in-op:%s:%s' % (self.prop, kind,
                                                    type(err).__name__),
                      '%r at %s:%s' % (err, own[-1].name, own[-1].line))

    def op_alloc(self, op, create=False):
        path = tuple(op['path'])
        part = path[0]
        if part not in self.cell.partitions:
            return
        alloc = self.cell.partitions[part].allocation
        for name in path[1:]:
            alloc = alloc.get_sub_alloc(name)
        old = self.truth.allocs.get(path)
        traits = op.get('traits', 0) if create or old is None else old['traits']
        alloc.update(list(op['reserved']), op['rank'], op['adj'], op['maxu'])
        if create or old is None:
            alloc.set_traits(traits)
        self.allocs[path] = alloc
        self.truth.allocs[path] = {
            'part': part, 'reserved': list(op['reserved']),
            'rank': op['rank'] if op['rank'] is not None
            else scheduler.DEFAULT_RANK,
            'adj': op['adj'] if op['adj'] is not None else (
                old['adj'] if old else 0),
            'maxu': op['maxu'], 'traits': traits}

    def op_group(self, op):
        old = self.truth.groups.get(op['name'])
        self.cell.configure_identity_group(op['name'], op['count'])
        self.truth.groups[op['name']] = op['count']
        if old is not None and op['count'] < old:
            self.faults['group_shrunk'] += 1

    def op_group_remove(self, op):
        if op['name'] not in self.truth.groups:
            return
        self.cell.remove_identity_group(op['name'])
        del self.truth.groups[op['name']]
        self.faults['group_removed'] += 1

    def op_add_server(self, op):
        name = op['name']
        if name in self.servers or op['rack'] not in self.buckets:
            return
        if op['label'] not in self.cell.partitions:
            return
        now = self.clock.peek()
        srv = scheduler.Server(name, list(op['cap']),
                               up_since=now - op['up_ago'],
                               label=op['label'], traits=op['traits'])
        self.buckets[op['rack']].add_node(srv)
        self.servers[name] = srv
        self.cell.partitions[op['label']].add(srv)
        self.truth.srv[name] = {'cap': list(op['cap']), 'label': op['label'],
                                'traits': op['traits'], 'rack': op['rack']}

    def op_remove_server(self, op):
        name = op['name']
        srv = self.servers.get(name)
        if srv is None:
            return
        # exactly what Loader.remove_server does
        srv.remove_all()
        srv.parent.remove_node(srv)
        for label in srv.labels:
            self.cell.partitions[label].remove(srv)
        del self.servers[name]
        del self.truth.srv[name]
        self.truth.down.pop(name, None)
        self.faults['srv_removed'] += 1

    def op_resize_server(self, op):
        # Loader.reload_server for a changed server: remove, load as new.
        name = op['name']
        if name not in self.servers:
            return
        rack = self.truth.srv[name]['rack']
        self.op_remove_server({'name': name})
        self.faults['srv_removed'] -= 1
        self.op_add_server({'name': name, 'rack': rack, 'cap': op['cap'],
                            'label': op['label'], 'traits': op['traits'],
                            'up_ago': op['up_ago']})
        self.faults['srv_resized'] += 1

    def op_relimit(self, op):
        """The limits of an affinity are redeclared for its next generation
        of instances: only while no instance of the affinity exists (the
        instances of one affinity share their limits)."""
        if any(spec['aff'] == op['aff'] for spec in self.truth.apps.values()):
            return
        self.truth.limits[op['aff']] = {k: int(v) for k, v in
                                        op['limits'].items()}
        self.faults['affinity_relimited'] = \
            self.faults.get('affinity_relimited', 0) + 1

    def op_revalidate(self, op):
        """What Loader.set_server_valid_until does when a server comes up:
        the server is (re)assigned to a reboot bucket of its partition, by
        the timestamp found in its presence record if there is one.  The
        server's valid_until may move to an earlier date than the expiry of
        leases already running on it."""
        srv = self.servers.get(op['name'])
        if srv is None:
            return
        before = srv.valid_until
        for label in srv.labels:
            self.cell.partitions[label].add(srv, op['ts'])
        if srv.valid_until != before:
            self.faults['reboot_rescheduled'] += 1

    def op_reload_cell(self, op):
        """What Loader.load_cell does on a 'cell' event: the top level
        buckets are detached and the listed ones attached again."""
        pods = [n for n in op['pods'] if n in self.buckets and
                n.startswith('pod:')]
        self.cell.reset_children()
        for name in pods:
            self.cell.add_node(self.buckets[name])
        members = cellobs.leaves(self.cell)
        for sname, srv in self.servers.items():
            if sname not in members:
                srv.remove_all()
                self.truth.down.pop(sname, None)
        self.faults['cell_reloaded'] = self.faults.get('cell_reloaded', 0) + 1

    def op_add_pod(self, op):
        """A new top level bucket with a rack (and servers) is defined and
        inserted into the cell (buckets event + cell event)."""
        if op['name'] in self.buckets:
            return
        pod = scheduler.Bucket(op['name'], level='pod')
        self.buckets[op['name']] = pod
        rack = scheduler.Bucket(op['rack'], level='rack')
        self.buckets[op['rack']] = rack
        pod.add_node(rack)
        attached = [c.name for c in self.cell.children if c is not None]
        self.op_reload_cell({'pods': attached + [op['name']]})
        for spec in op['servers']:
            self.op_add_server(spec)

    def op_srv_state(self, op):
        srv = self.servers.get(op['name'])
        if srv is None:
            return
        state = scheduler.State(op['state'])
        was = srv.state
        t_a = self.clock.peek()
        srv.state = state
        t_b = self.clock.peek()
        if state is scheduler.State.down:
            if was is not scheduler.State.down:
                self.truth.down[op['name']] = (t_a, t_b)
                self.faults['srv_down'] += 1
        else:
            self.truth.down.pop(op['name'], None)
            if was is not state:
                self.faults['srv_' + op['state']] += 1

    def op_add_app(self, op):
        name = op['name']
        if name in self.cell.apps:
            return
        alloc = self._alloc(op['alloc'])
        if alloc is None:
            return
        limits = self.truth.limits.get(op['aff'], {})
        app = scheduler.Application(
            name, op['prio'], list(op['demand']), op['aff'],
            affinity_limits=dict(limits) if limits else None,
            data_retention_timeout=op['drt'], lease=op['lease'],
            identity_group=op.get('group'), traits=op['traits'],
            schedule_once=op.get('once', False))
        self.cell.add_app(alloc, app)
        self.truth.apps[name] = {
            'demand': list(op['demand']), 'aff': op['aff'],
            'alloc': list(op['alloc']), 'traits': op['traits'],
            'lease': op['lease'], 'drt': op['drt'],
            'group': op.get('group'), 'once': op.get('once', False)}

    def op_remove_app(self, op):
        if op['name'] not in self.cell.apps:
            return
        self.cell.remove_app(op['name'])
        del self.truth.apps[op['name']]
        self.truth.marks.pop(op['name'], None)

    def op_set_prio(self, op):
        app = self.cell.apps.get(op['name'])
        if app is not None:
            app.priority = op['prio']

    def op_move_app(self, op):
        app = self.cell.apps.get(op['name'])
        alloc = self._alloc(op['alloc'])
        if app is None or alloc is None:
            return
        old_part = self.truth.partition_of(op['name'])
        # what Loader.load_app does for a known instance
        self.cell.add_app(alloc, app)
        self.truth.apps[op['name']]['alloc'] = list(op['alloc'])
        if self.truth.partition_of(op['name']) != old_part:
            self.probes['moved_partition'] += 1

    def op_blacklist(self, op):
        app = self.cell.apps.get(op['name'])
        if app is not None:
            app.blacklisted = bool(op['flag'])
            self.faults['blacklist'] += 1

    def op_renew(self, op):
        # A renewal request is one-shot (as scheduler_test drives it): set the
        # flag, run the cycle, clear a left-over retry flag.  Nothing in this
        # snapshot sets Application.renew outside the scheduler, and a
        # left-over flag on an instance whose server later disappears trips
        # `assert app.server` (latent, unreachable in production).
        app = self.cell.apps.get(op['name'])
        if app is None or app.server is None or not app.lease:
            return
        srv = self.servers.get(app.server)
        if srv is None:
            return
        if srv.state is scheduler.State.down:
            retention = app.data_retention_timeout or 0
            if srv.get_state()[1] + retention <= self.clock.peek() + 1.0:
                return
        if app.unschedule and srv.state is scheduler.State.frozen:
            return
        if (app.identity is not None and app.identity_group_ref is not None
                and app.identity >= app.identity_group_ref.count):
            return
        app.renew = True
        self.renewing = True
        try:
            self.run_cycle()
        finally:
            self.renewing = False
        app = self.cell.apps.get(op['name'])
        if app is not None:
            app.renew = False

    def op_unschedule(self, op):
        # Master._freeze_server(server, apps)
        srv = self.servers.get(op['server'])
        if srv is None:
            return
        for aname in op['apps']:
            app = srv.apps.get(aname)
            if app is not None:
                app.unschedule = True
                self.truth.marks[aname] = op['server']
        self.op_srv_state({'name': op['server'], 'state': 'frozen'})

    def op_freeze_holder(self, op):
        """Freeze (marking nothing) the server that now holds the first of
        the named instances."""
        for aname in op['apps']:
            app = self.cell.apps.get(aname)
            if app is not None and app.server in self.servers:
                self.op_unschedule({'server': app.server, 'apps': []})
                return

    def op_advance(self, op):
        self.clock.advance(op['dt'])
        if op['dt'] >= 3600:
            self.faults['clock_jump'] += 1

    def op_tick(self, _op):
        now = self.clock.peek()
        for part in self.cell.partitions.values():
            part.tick(now)

    def op_cycle(self, _op):
        self.run_cycle()

    # -- one real scheduling cycle, observed
    def run_cycle(self, checks=None):
        cell = self.cell
        ctx = cellcheck.CycleCtx(cell, self.truth)
        ctx.pre = cellcheck.snapshot_apps(cell)
        ctx.pre_srv = cellcheck.snapshot_servers(cell)
        rec = cellobs.Recorder()
        ctx.rec = rec
        ctx.t0 = self.clock.peek()
        cellobs.set_recorder(rec)
        try:
            ctx.placement = cell.schedule()
        except Exception as err:  # pylint: disable=broad-except
            cellobs.set_recorder(None)
            import traceback
            tb = traceback.extract_tb(err.__traceback__)
            where = '%s:%s' % (tb[-1].name, tb[-1].line)
            if (self.renewing and isinstance(err, AssertionError) and
                    tb[-1].line == 'assert app.server'):
                # latent defect outside the listed properties: an instance
                # with a pending renewal that is evicted earlier in the same
                # cycle trips this assertion.  Unreachable in production
                # (nothing sets Application.renew); the run is abandoned.
                self.probes['renew_assert_abort'] += 1
                self.aborted = True
                return None
            self.fail('%s:exception-in-cycle:%s' % (self.prop,
                                                    type(err).__name__),
                      '%s at %s' % (err, where))
            return None
        finally:
            cellobs.set_recorder(None)
        ctx.t1 = self.clock.peek()
        ctx.post = cellcheck.snapshot_apps(cell)
        self.cycles += 1
        self._probe_counts(ctx)
        if checks is None:
            checks = (self.prop,)
        for prop in checks:
            fn = cellcheck.CHECKS.get(prop)
            if fn is None:
                continue
            bad = fn(ctx)
            if bad is not None:
                self.fail(bad[0], bad[1])
                break
        # an explicit mark lasts while the instance stays on that server
        for aname, sname in list(self.truth.marks.items()):
            post = ctx.post.get(aname)
            if post is None or post.server != sname:
                del self.truth.marks[aname]
        state = sorted((n, s.server, s.identity) for n, s in ctx.post.items())
        srvs = sorted((n, v[0]) for n, v in ctx.pre_srv.items())
        self.fps.append(logmod.fingerprint([state, srvs]))
        self.log.ev('cycle', self.cycles, ctx.t0, state)
        return ctx

    def _probe_counts(self, ctx):
        pr = self.probes
        pr['cycles'] += 1
        ev_find = [e for e in ctx.rec.events if e[0] == 'remove' and
                   e[3] == 'find']
        pr['evictions'] += len(ev_find)
        restores = [e for e in ctx.rec.events if e[0] == 'put' and
                    e[3] == 'restore']
        pr['restores'] += len(restores)
        pr['infeasible_skips'] += sum(1 for e in ctx.rec.events
                                      if e[0] == 'infeasible')
        changed = 0
        for name, post in ctx.post.items():
            pre = ctx.pre.get(name)
            if pre is None:
                continue
            if post.server != pre.server:
                changed += 1
                if post.server is not None:
                    pr['placements'] += 1
            elif post.server is not None and post.expiry != pre.expiry:
                pr['renewals'] += 1
            if pre.renew and post.renew:
                pr['renew_failed'] += 1
            if post.identity is not None:
                pr['identities_held'] += 1
        evicted_names = {e[1] for e in ev_find}
        for name in evicted_names:
            post = ctx.post.get(name)
            pre = ctx.pre.get(name)
            if post is not None and pre is not None and \
                    post.server != pre.server:
                pr['restore_failed'] += 1
        on_down = on_frozen = 0
        for name, pre in ctx.pre.items():
            st = ctx.pre_srv.get(pre.server, (None,))[0]
            if st == 'down':
                on_down += 1
                post = ctx.post.get(name)
                if post is not None and post.server != pre.server:
                    pr['retention_expired'] += 1
            elif st == 'frozen':
                on_frozen += 1
        pr['apps_on_down'] += on_down
        pr['apps_on_frozen'] += on_frozen
        for _label, entries in ctx.rec.entries:
            allocs = set()
            for ent in entries:
                allocs.add(self.truth.alloc_of(ent[5]))
                if ent[0] == cellcheck.UNPLACED:
                    pr['beyond_cap'] += 1
                info = self.truth.alloc_info(self.truth.alloc_of(ent[5]))
                if info and info['adj'] and ent[0] == info['rank'] - info['adj']:
                    pr['boosted'] += 1
            if len(allocs) > 1:
                pr['multi_alloc_queue'] += 1
        # non-trivial by the property's rule
        prop = self.prop
        if prop in ('C01', 'C03'):
            self.nontrivial += 1 if changed else 0
        elif prop in ('C04', 'C07'):
            self.nontrivial += 1 if ev_find else 0
        elif prop == 'C05':
            self.nontrivial += 1 if any(
                s.identity is not None for s in ctx.post.values()) else 0
        elif prop == 'C06':
            self.nontrivial += 1 if any(
                len({self.truth.alloc_of(e[5]) for e in ents}) > 1
                for _l, ents in ctx.rec.entries) else 0
        elif prop == 'C08':
            self.nontrivial += 1 if (on_down or on_frozen) else 0

    # -- C02 probe
    def op_probe(self, op):
        cell = self.cell
        # reach quiescence: a cycle that changes nothing
        quiet = False
        for _ in range(4):
            ctx = self.run_cycle(checks=())
            if ctx is None:
                return
            same = all(ctx.pre.get(n) is not None and
                       ctx.pre[n].server == p.server and
                       ctx.pre[n].expiry == p.expiry and
                       ctx.pre[n].identity == p.identity
                       for n, p in ctx.post.items())
            if same:
                quiet = True
                break
        now = self.clock.peek()
        if (not quiet or cell.next_event_at < now + 5.0 or
                op['app']['name'] in cell.apps or
                self._alloc(op['app']['alloc']) is None):
            self.probes['probe_not_quiescent'] += 1
            return
        spec = op['app']
        # soundness: the probe must be the LAST instance of its allocation
        # in priority order (priority-0 ones aside), otherwise it pushes its
        # siblings' cumulative demand past the reservation, their rank
        # changes, the queue is re-ordered and an instance ahead of the
        # probe may legitimately take the room (found by a soak)
        alloc = self._alloc(spec['alloc'])
        if any(0 < a.priority < spec['prio'] for a in alloc.apps.values()):
            self.probes['probe_not_last_in_allocation'] = \
                self.probes.get('probe_not_last_in_allocation', 0) + 1
            return
        fit = self._probe_fits(spec, now)
        self.op_add_app(dict(spec, op='add_app'))
        ctx = self.run_cycle(checks=())
        if ctx is None:
            return
        app = cell.apps.get(spec['name'])
        placed = app is not None and app.server is not None
        if fit is not None:
            self.probes['probe_fit'] += 1
            self.nontrivial += 1
            if not placed:
                skipped = any(e[0] == 'infeasible' and e[1] == spec['name']
                              for e in ctx.rec.events)
                self.fail('C02:fits-but-pending:%s' % (
                    'infeasible-skip' if skipped else 'search'),
                          'probe %r fits up server %s (free %r) but was left '
                          'pending' % (spec, fit[0], fit[1]))
        else:
            self.probes['probe_nofit'] += 1
        self.log.ev('probe', spec['name'], fit[0] if fit else None, placed)
        self.op_remove_app({'name': spec['name']})

    def _probe_fits(self, spec, now):
        """Independent leaf scan.  Returns (server, free) or None."""
        truth = self.truth
        ainfo = truth.allocs.get(tuple(spec['alloc']))
        if ainfo is None:
            return None
        label = ainfo['part']
        need = spec['traits'] | ainfo['traits']
        limits = truth.limits.get(spec['aff'], {})
        if spec.get('group'):
            # an identity is free when the group (as configured by the
            # harness) has a number that no placed instance of the group
            # holds; the scheduler's own free list is not consulted
            count = truth.groups.get(spec['group'])
            if not count:
                return None
            held = {a.identity for n, a in self.cell.apps.items()
                    if a.server is not None and a.identity is not None and
                    truth.group_of(n) == spec['group']}
            if not set(range(count)) - held:
                return None
        counts = cellcheck.recount_affinity(self.cell)
        leaves = cellobs.leaves(self.cell)
        for sname in sorted(leaves):
            srv = leaves[sname]
            st = truth.srv[sname]
            if srv.state is not scheduler.State.up:
                continue
            if st['label'] != label or (st['traits'] & need) != need:
                continue
            if spec['lease'] and not now + spec['lease'] + 5.0 < srv.valid_until:
                continue
            used = [0.0, 0.0, 0.0]
            for aname, aobj in srv.apps.items():
                dem = truth.demand_of(aname)
                if dem is None:
                    # an instance the harness no longer knows (only possible
                    # when the code under test lost track of it)
                    dem = [float(x) for x in aobj.demand]
                for d in range(3):
                    used[d] += dem[d]
            free = [st['cap'][d] - used[d] for d in range(3)]
            if any(spec['demand'][d] > free[d] for d in range(3)):
                continue
            ok = True
            for node in cellobs.ancestors(srv):
                limit = limits.get(node.level)
                if limit is None:
                    continue
                if counts.get(id(node), {}).get(spec['aff'], 0) >= limit:
                    ok = False
                    break
            if ok:
                return (sname, free)
        return None


# ---------------------------------------------------------------------------
# generation

OP_WEIGHTS = [
    ('add_app', 30), ('remove_app', 7), ('set_prio', 5), ('move_app', 4),
    ('srv_state', 12), ('add_server', 2), ('remove_server', 2),
    ('resize_server', 2), ('alloc', 3), ('group', 4), ('group_remove', 1),
    ('blacklist', 3), ('renew', 2), ('unschedule', 2), ('advance', 8),
    ('tick', 1), ('cycle', 26), ('probe', 0), ('reload_cell', 2),
    ('add_pod', 1), ('lease_squeeze', 2), ('stale_mark', 2),
    ('revalidate', 1), ('reboot_forward', 2), ('relimit', 2),
    ('renew_on_inactive', 2),
]


class Generator:
    """Adaptive op generator: looks at the world, emits concrete ops."""

    def __init__(self, config, streams):
        self.config = config
        self.rng = streams.get('gen')
        self.napps = 0
        self.follow = []
        self.nsrv = len(config['servers'])
        self.weights = [(k, w * config['wmul'].get(k, 1.0))
                        for k, w in OP_WEIGHTS]
        if config.get('probe_weight'):
            self.weights = [(k, config['probe_weight'] if k == 'probe' else w)
                            for k, w in self.weights]

    def next_op(self, world):
        rng = self.rng
        if self.follow:
            return self.follow.pop(0)
        for _ in range(20):
            kind = rngmod.weighted(rng, self.weights)
            op = getattr(self, 'g_' + kind)(world)
            if op is not None:
                return op
        return {'op': 'cycle'}

    # -- pieces
    def _app_spec(self, world, name=None, probe=False):
        rng = self.rng
        cfg = self.config
        allocs = sorted(p for p, v in world.truth.allocs.items()
                        if v is not None and (not probe or v['maxu'] is None))
        if not allocs:
            return None
        path = rng.choice(allocs)
        self.napps += 1
        if name is None:
            name = 'a%d' % self.napps
        aff = rng.choice(cfg['aff_names'])
        scale = cfg.get('scale', 1)
        demand = _vec(rng, cfg['dem_lo'], cfg['dem_hi'], scale)
        if rng.random() < 0.15:
            demand[rng.randrange(3)] = float(
                rng.randint(cfg['dem_hi'], cfg['dem_hi'] * 3) * scale)
        if rng.random() < cfg.get('p_tight', 0.0):
            # a demand at the very edge of what some up server has left: it
            # fits exactly, or misses by one or two units in one dimension
            ups = sorted(n for n, srv in world.servers.items()
                         if srv.state is scheduler.State.up)
            if ups:
                free = [float(x) for x in
                        world.servers[rng.choice(ups)].free_capacity]
                dim = rng.randrange(3)
                if free[dim] > 0:
                    demand = [float(rng.randint(0, int(max(0.0, f))))
                              for f in free]
                    demand[dim] = free[dim] + rng.choice([0, 1, 1, 2])
        lease = 0
        if cfg['leases'] and rng.random() < 0.35:
            lease = float(rng.choice([3600, DAY * 0.5, DAY, DAY * 2,
                                      DAY * 6, DAY * 20]))
        drt = rng.choice([None, 0, 0, 30.0, 300.0, 3600.0]) \
            if cfg['retention'] else 0
        traits = 0
        if cfg['ntraits'] and rng.random() < 0.3:
            traits = rng.choice(cfg['trait_bits'] + [1])
        group = None
        if cfg['groups'] and rng.random() < 0.4:
            group = rng.choice(cfg['group_names'])
        prio = rng.choice([0, 1, 1, 5, 10, 50, 100])
        if probe and prio == 0:
            prio = 1
        return {'op': 'add_app', 'name': name, 'prio': prio, 'demand': demand,
                'aff': aff, 'drt': drt, 'lease': lease, 'group': group,
                'traits': traits, 'once': rng.random() < 0.1,
                'alloc': list(path)}

    def g_add_app(self, world):
        return self._app_spec(world)

    def g_probe(self, world):
        self.napps += 0
        spec = self._app_spec(world, name='probe%d' % (self.napps + 1),
                              probe=True)
        if spec is None:
            return None
        spec['once'] = False
        del spec['op']
        alloc = world._alloc(spec['alloc'])
        prios = [a.priority for a in alloc.apps.values() if a.priority > 0] \
            if alloc is not None else []
        spec['prio'] = min(prios) if prios else max(1, spec['prio'])
        return {'op': 'probe', 'app': spec}

    def _some_app(self, world, placed=None):
        names = sorted(world.cell.apps)
        if placed is True:
            names = [n for n in names if world.cell.apps[n].server]
        if not names:
            return None
        return self.rng.choice(names)

    def _reboot_slots(self, world, srv):
        out = set()
        for label in srv.labels:
            part = world.cell.partitions.get(label)
            if part is not None:
                # (reading the partition's reboot calendar)
                out.update(b.timestamp for b in part._reboot_buckets)
        return sorted(out)

    def g_revalidate(self, world):
        name = self._some_srv(world)
        if not name:
            return None
        slots = self._reboot_slots(world, world.servers[name])
        ts = self.rng.choice(slots + [None]) if slots else None
        return {'op': 'revalidate', 'name': name, 'ts': ts}

    def g_reboot_forward(self, world):
        """The reboot of a server is brought forward to a date before the
        expiry of a lease running on it; then an instance that fits nowhere
        arrives ahead of the leased one: everything behind it is evicted for
        it in vain and has to be put back - the leased instance included,
        whatever its server's new reboot date."""
        rng = self.rng
        now = world.clock.peek()
        cands = []
        for name in sorted(world.cell.apps):
            app = world.cell.apps[name]
            srv = world.servers.get(app.server) if app.server else None
            if not app.lease or srv is None or app.priority >= 100 or \
                    app.priority == 0 or \
                    srv.state is not scheduler.State.up:
                continue
            slots = [t for t in self._reboot_slots(world, srv)
                     if now + 60.0 < t < app.placement_expiry]
            if slots:
                cands.append((name, srv.name, slots))
        if not cands:
            return None
        name, sname, slots = rng.choice(cands)
        spec = dict(world.truth.apps[name])
        caps = [world.truth.srv[s]['cap'] for s in sorted(world.truth.srv)]
        giant = [2.0 * max(c[d] for c in caps) + 1.0 for d in range(3)]
        self.napps += 1
        gname = 'a%d' % self.napps
        self.follow.extend([
            {'op': 'add_app', 'name': gname, 'prio': 100, 'demand': giant,
             'aff': spec['aff'], 'drt': 0, 'lease': 0, 'group': None,
             'traits': 0, 'once': False, 'alloc': list(spec['alloc'])},
            {'op': 'cycle'},
            {'op': 'remove_app', 'name': gname},
            {'op': 'cycle'}])
        return {'op': 'revalidate', 'name': sname, 'ts': rng.choice(slots)}

    def g_stale_mark(self, world):
        """An instance is marked for unscheduling on a server that is frozen
        and then goes down before the next cycle; it is re-placed through the
        retention path, and its new server is frozen later with nothing
        marked: it must stay there."""
        rng = self.rng
        cands = sorted(n for n, s in world.servers.items()
                       if s.apps and s.state is scheduler.State.up)
        if not cands:
            return None
        sname = rng.choice(cands)
        apps = sorted(world.servers[sname].apps)
        marked = rng.sample(apps, rng.randint(1, min(2, len(apps))))
        wait = max([float(world.truth.apps[a]['drt'] or 0)
                    for a in marked]) + 1.0
        self.follow.extend([
            {'op': 'srv_state', 'name': sname, 'state': 'down'},
            {'op': 'advance', 'dt': wait},
            {'op': 'cycle'},
            {'op': 'freeze_holder', 'apps': marked},
            {'op': 'cycle'}])
        return {'op': 'unschedule', 'server': sname, 'apps': marked}

    def g_lease_squeeze(self, world):
        """A running leased instance whose server is by now too close to its
        reboot for a NEW lease, and a higher-priority sibling of the same
        shape arriving: the sibling cannot be placed, the running one must
        stay (targeted: eviction followed by a restore that must happen)."""
        rng = self.rng
        cands = []
        for name in sorted(world.cell.apps):
            app = world.cell.apps[name]
            srv = world.servers.get(app.server) if app.server else None
            if app.lease and srv is not None and \
                    srv.state is scheduler.State.up and srv.valid_until:
                cands.append((name, app, srv))
        if not cands:
            return None
        name, app, srv = rng.choice(cands)
        spec = dict(world.truth.apps[name])
        now = world.clock.peek()
        dt = srv.valid_until - app.lease - now + rng.choice([1.0, 60.0, 3600.0])
        self.napps += 1
        sibling = {'op': 'add_app', 'name': 'a%d' % self.napps,
                   'prio': min(100, app.priority + rng.choice([1, 10])),
                   'demand': [max(0.0, d - rng.choice([0.0, 0.0, 1.0]))
                              for d in spec['demand']],
                   'aff': spec['aff'], 'drt': spec['drt'],
                   'lease': spec['lease'], 'group': None,
                   'traits': spec['traits'], 'once': False,
                   'alloc': list(spec['alloc'])}
        self.follow.extend([sibling, {'op': 'cycle'}])
        if dt > 0:
            return {'op': 'advance', 'dt': round(dt, 3)}
        return self.follow.pop(0)

    def g_remove_app(self, world):
        name = self._some_app(world)
        return {'op': 'remove_app', 'name': name} if name else None

    def g_set_prio(self, world):
        name = self._some_app(world)
        if not name:
            return None
        return {'op': 'set_prio', 'name': name,
                'prio': self.rng.choice([0, 1, 5, 10, 50, 100])}

    def g_move_app(self, world):
        name = self._some_app(world)
        allocs = sorted(p for p, v in world.truth.allocs.items()
                        if v is not None)
        if not name or not allocs:
            return None
        return {'op': 'move_app', 'name': name,
                'alloc': list(self.rng.choice(allocs))}

    def _some_srv(self, world):
        names = sorted(world.servers)
        return self.rng.choice(names) if names else None

    def g_srv_state(self, world):
        name = self._some_srv(world)
        if not name:
            return None
        cur = world.servers[name].state.value
        if cur == 'up':
            state = self.rng.choice(['down', 'down', 'frozen'])
        else:
            state = self.rng.choice(['up', 'up', 'down', 'frozen'])
        return {'op': 'srv_state', 'name': name, 'state': state}

    def _srv_spec(self, world, name, rack):
        rng = self.rng
        cfg = self.config
        traits = 0
        for bit in cfg['trait_bits']:
            if rng.random() < 0.4:
                traits |= bit
        return {'name': name, 'rack': rack,
                'cap': _vec(rng, cfg['cap_lo'], cfg['cap_hi'],
                            cfg.get('scale', 1)),
                'label': rng.choice(cfg['partitions']),
                'traits': traits,
                'up_ago': float(rng.choice([0, 3600, DAY, DAY * 5, DAY * 19]))}

    def g_add_server(self, world):
        racks = sorted(b for b in world.buckets if b.startswith('rack:'))
        if not racks or len(world.servers) >= 12:
            return None
        self.nsrv += 1
        spec = self._srv_spec(world, 's%d' % self.nsrv, self.rng.choice(racks))
        spec['op'] = 'add_server'
        return spec

    def g_reload_cell(self, world):
        pods = sorted(b for b in world.buckets if b.startswith('pod:'))
        order = list(pods)
        self.rng.shuffle(order)
        if len(order) > 1 and self.rng.random() < 0.3:
            order = order[:-1]          # one pod stays detached
        return {'op': 'reload_cell', 'pods': order}

    def g_add_pod(self, world):
        pods = [b for b in world.buckets if b.startswith('pod:')]
        if len(pods) >= 5:
            return None
        idx = len(pods)
        name = 'pod:n%d' % idx
        rack = 'rack:n%dr0' % idx
        servers = []
        for _ in range(self.rng.randint(1, 2)):
            self.nsrv += 1
            spec = self._srv_spec(world, 's%d' % self.nsrv, rack)
            spec['op'] = 'add_server'
            servers.append(spec)
        return {'op': 'add_pod', 'name': name, 'rack': rack,
                'servers': servers}

    def g_remove_server(self, world):
        name = self._some_srv(world)
        return {'op': 'remove_server', 'name': name} if name else None

    def g_resize_server(self, world):
        name = self._some_srv(world)
        if not name:
            return None
        spec = self._srv_spec(world, name, world.truth.srv[name]['rack'])
        if self.rng.random() < 0.6:
            spec['label'] = world.truth.srv[name]['label']
        spec['op'] = 'resize_server'
        return spec

    def g_alloc(self, world):
        allocs = sorted(p for p, v in world.truth.allocs.items()
                        if v is not None)
        if not allocs:
            return None
        path = self.rng.choice(allocs)
        spec = _alloc_spec(self.rng, self.config, list(path))
        spec['op'] = 'alloc'
        return spec

    def g_group(self, world):
        if not self.config['group_names']:
            return None
        return {'op': 'group', 'name': self.rng.choice(
            self.config['group_names']),
                'count': self.rng.choice([0, 1, 1, 2, 3, 5])}

    def g_group_remove(self, world):
        names = sorted(world.truth.groups)
        if not names:
            return None
        return {'op': 'group_remove', 'name': self.rng.choice(names)}

    def g_relimit(self, world):
        """All instances of an affinity leave, its limits are redeclared
        (often the same values on other levels), new instances arrive."""
        rng = self.rng
        aff = rng.choice(self.config['aff_names'])
        old = dict(world.truth.limits.get(aff, {}))
        if old and rng.random() < 0.6:
            levels = list(LEVELS)
            rng.shuffle(levels)
            new = dict(zip(levels, sorted(old.values())))
        else:
            new = {lv: rng.choice([0, 1, 1, 2, 2, 3, 4])
                   for lv in LEVELS if rng.random() < 0.4}
        mine = sorted(n for n, spec in world.truth.apps.items()
                      if spec['aff'] == aff)
        ops = [{'op': 'remove_app', 'name': n} for n in mine]
        ops.append({'op': 'relimit', 'aff': aff, 'limits': new})
        template = None
        for _ in range(rng.randint(1, 4)):
            spec = self._app_spec(world)
            if spec is None:
                break
            spec['aff'] = aff
            spec['group'] = None
            if template is not None and rng.random() < 0.5:
                spec['demand'] = list(template)
            template = spec['demand']
            ops.append(spec)
        ops.append({'op': 'cycle'})
        self.follow.extend(ops[1:])
        return ops[0]

    def g_renew_on_inactive(self, world):
        """A leased instance sits on a server that is frozen (or goes down
        within retention); by the time it asks for a renewal the lease no
        longer fits before that server's reboot, and nothing else has room:
        it must end the cycle where it was, and nobody ahead of it may pay
        for it."""
        rng = self.rng
        now = world.clock.peek()
        cands = []
        for name in sorted(world.cell.apps):
            app = world.cell.apps[name]
            srv = world.servers.get(app.server) if app.server else None
            if app.lease and srv is not None and srv.valid_until and \
                    srv.state is scheduler.State.up:
                cands.append((name, app, srv))
        if not cands:
            return None
        name, app, srv = rng.choice(cands)
        dt = srv.valid_until - app.lease - now + rng.choice([1.0, 60.0])
        ops = [{'op': 'srv_state', 'name': srv.name,
                'state': rng.choice(['frozen', 'frozen', 'down'])}]
        if dt > 0:
            ops.append({'op': 'advance', 'dt': round(dt, 3)})
        ops.extend([{'op': 'renew', 'name': name}, {'op': 'cycle'}])
        self.follow.extend(ops[1:])
        return ops[0]

    def g_blacklist(self, world):
        name = self._some_app(world)
        if not name:
            return None
        return {'op': 'blacklist', 'name': name,
                'flag': not world.cell.apps[name].blacklisted}

    def g_renew(self, world):
        names = sorted(n for n, a in world.cell.apps.items()
                       if a.server and a.lease)
        if not names:
            return None
        return {'op': 'renew', 'name': self.rng.choice(names)}

    def g_unschedule(self, world):
        names = sorted(n for n, s in world.servers.items() if s.apps)
        if not names:
            return None
        sname = self.rng.choice(names)
        apps = sorted(world.servers[sname].apps)
        k = self.rng.randint(0, min(2, len(apps)))
        return {'op': 'unschedule', 'server': sname,
                'apps': self.rng.sample(apps, k)}

    def g_advance(self, world):
        rng = self.rng
        # bias: land just before / after a retention boundary
        if world.truth.down and rng.random() < 0.5:
            sname = rng.choice(sorted(world.truth.down))
            since = world.truth.down[sname][1]
            srv = world.servers.get(sname)
            rets = sorted({world.truth.apps[a]['drt'] or 0
                           for a in (srv.apps if srv else ())})
            if rets:
                target = since + rng.choice(rets) + rng.choice(
                    [-1.0, -0.001, 0.001, 1.0])
                dt = target - world.clock.peek()
                if dt > 0:
                    return {'op': 'advance', 'dt': round(dt, 6)}
        dt = rng.choice([0.5, 2.0, 29.0, 31.0, 299.0, 301.0, 3600.0, DAY,
                         DAY * 3])
        return {'op': 'advance', 'dt': dt}

    def g_tick(self, world):
        return {'op': 'tick'}

    def g_cycle(self, world):
        return {'op': 'cycle'}


def _alloc_spec(rng, cfg, path):
    reserved = [0.0, 0.0, 0.0]
    if rng.random() < 0.7:
        reserved = _vec(rng, 0, cfg['cap_hi'], cfg.get('scale', 1))
    maxu = None
    if cfg['caps'] and rng.random() < 0.35:
        maxu = rng.choice([0.5, 1.0, 1.5, 2.0, 4.0])
    return {'path': path, 'reserved': reserved,
            'rank': rng.choice([None, 100, 100, 50, 10, 150, 0]),
            'adj': rng.choice([0, 0, 5, 10, 30]) if cfg['adjust'] else 0,
            'maxu': maxu,
            'traits': (rng.choice(cfg['trait_bits']) if cfg['ntraits'] and
                       rng.random() < 0.2 else 0)}


def make_config(prop, tier, rng):
    big = (tier == 'thorough')
    npods = rng.randint(1, 3)
    pods = []
    for _ in range(npods):
        pods.append([rng.randint(1, 4 if big else 3)
                     for _ in range(rng.randint(1, 3))])
    nparts = rng.choice([1, 1, 2, 2, 3])
    partitions = ['_default'] + ['part%d' % i for i in range(1, nparts)]
    ntraits = rng.choice([0, 1, 2, 3])
    trait_bits = [2 << i for i in range(ntraits)]
    cfg = {
        'start': 1700000000.0 + rng.randint(0, 7 * 86400),
        'pods': pods,
        'partitions': partitions,
        'ntraits': ntraits,
        'trait_bits': trait_bits,
        'cap_lo': rng.choice([2, 4, 6]),
        'cap_hi': rng.choice([8, 12, 20]),
        'dem_lo': rng.choice([0, 1, 1]),
        'dem_hi': rng.choice([3, 5, 8]),
        'leases': rng.random() < 0.6,
        'retention': rng.random() < 0.7,
        'caps': rng.random() < 0.5,
        'adjust': rng.random() < 0.6,
        'n_ops': rng.randint(15, 120 if big else 70),
        # magnitude of the quantities (units per step of the generator) and
        # how often a demand is cut to the edge of a server's free capacity
        'scale': rng.choice([1, 1, 1, 1000, 131072, 1048576]),
        'p_tight': rng.choice([0.0, 0.05, 0.15]),
    }
    # allocations: a small tree per partition
    allocs = []
    for part in partitions:
        for i in range(rng.randint(1, 3)):
            path = [part, 't%d' % i]
            allocs.append(_alloc_spec(rng, cfg, path))
            for j in range(rng.choice([0, 0, 1, 2])):
                sub = path + ['u%d' % j]
                allocs.append(_alloc_spec(rng, cfg, sub))
                if rng.random() < 0.3:
                    allocs.append(_alloc_spec(rng, cfg, sub + ['v0']))
    cfg['allocs'] = allocs
    # affinities and their limits (identical per affinity name)
    naff = rng.randint(1, 4)
    cfg['aff_names'] = ['aff%d' % i for i in range(naff)]
    levels_on = [lv for lv in LEVELS if rng.random() < 0.5]
    affinities = []
    for aff in cfg['aff_names']:
        limits = {}
        if rng.random() < 0.75:
            for lv in levels_on:
                if rng.random() < 0.7:
                    limits[lv] = rng.choice([0, 1, 1, 2, 2, 3, 4])
        affinities.append([aff, limits])
    cfg['affinities'] = affinities
    ngroups = rng.choice([0, 1, 2]) if prop != 'C05' else rng.choice([1, 2, 3])
    cfg['group_names'] = ['g%d' % i for i in range(ngroups)]
    cfg['groups'] = [[g, rng.choice([0, 1, 2, 3, 5])]
                     for g in cfg['group_names'] if rng.random() < 0.85]
    # servers
    servers = []
    n = 0
    for pi, racks in enumerate(pods):
        for ri, count in enumerate(racks):
            for _ in range(count):
                n += 1
                traits = 0
                for bit in trait_bits:
                    if rng.random() < 0.4:
                        traits |= bit
                servers.append({
                    'name': 's%d' % n, 'rack': 'rack:p%dr%d' % (pi, ri),
                    'cap': _vec(rng, cfg['cap_lo'], cfg['cap_hi'],
                                cfg['scale']),
                    'label': rng.choice(partitions), 'traits': traits,
                    'up_ago': float(rng.choice([0, 3600, DAY, DAY * 5,
                                                DAY * 19]))})
    cfg['servers'] = servers
    # swarm: per-run multipliers of op weights
    wmul = {}
    for key, _w in OP_WEIGHTS:
        wmul[key] = rng.choice([0.0, 0.5, 1.0, 1.0, 2.0]) \
            if key not in ('add_app', 'cycle') else rng.choice([0.7, 1.0, 1.5])
    if prop == 'C02':
        wmul['probe'] = 1.0
    cfg['wmul'] = wmul
    if prop == 'C02':
        cfg['probe_weight'] = 6
    return cfg


class CellSim(enginemod.Engine):
    name = 'cellsim'
    serves = ('C01', 'C02', 'C03', 'C04', 'C05', 'C06', 'C07', 'C08')
    real_components = (
        'treadmill.scheduler: Cell, Bucket, Server, Application, Allocation, '
        'Partition, RebootBucket, IdentityGroup, PlacementFeasibilityTracker, '
        'SpreadStrategy (all real, unmodified)',
    )
    stub_components = (
        'clock (virtual, strictly increasing)',
        'events are applied by the harness through the calls Loader makes '
        '(add_app/remove_app/add_node/remove_node/set state/...) instead of '
        'through ZooKeeper (mastersim does that)',
    )

    RULES = {
        'C01': 'non-trivial: a cycle that changed at least one placement',
        'C02': 'non-trivial: a probe instance for which the independent leaf '
               'scan found a fitting server in a quiescent cell',
        'C03': 'non-trivial: a cycle that changed at least one placement',
        'C04': 'non-trivial: a cycle in which at least one eviction occurred',
        'C05': 'non-trivial: a cycle after which at least one identity is held',
        'C06': 'non-trivial: a cycle whose queue merged >= 2 allocations',
        'C07': 'non-trivial: a cycle in which at least one eviction occurred',
        'C08': 'non-trivial: a cycle that started with instances on a down or '
               'frozen server',
    }

    def rule(self, prop):
        return ('seeded random topology/allocation tree/op mix per run '
                '(swarm), adaptive op generator, real cell.schedule() per '
                'cycle op; a run is distinct by the fingerprint of its '
                'recorded op list; ' + self.RULES[prop] +
                ' (distinct_nontrivial counts distinct runs containing one)')

    def assumptions(self, prop):
        return [
            'virtual clock: strictly increasing, 8us per read',
            'instances of one affinity name share their limits (as the '
            'property quantifier states)',
            'only the first violation of a run is reported',
        ]

    def irrelevant_probes(self, prop):
        out = set()
        if prop != 'C02':
            out |= {'probe_fit', 'probe_nofit', 'probe_not_quiescent'}
        return out

    def quick_runs(self, prop):
        return 9600

    def make_config(self, prop, tier, rng):
        return make_config(prop, tier, rng)

    def execute(self, prop, config, seed, ops=None, keep_log=False):
        cellobs.install()
        res = enginemod.Result()
        log = logmod.EventLog(keep=keep_log)
        log.ev('seed', seed, prop)
        clock = clockmod.Clock(config['start'])
        clock.install()
        try:
            world = World(config, clock, prop, log)
            t_begin = clock.peek()
            executed = []
            if ops is None:
                gen = Generator(config, rngmod.Streams(seed))
                source = None
            else:
                gen = None
                source = iter(ops)
            n = 0
            while world.violation is None and not world.aborted:
                if gen is not None:
                    if n >= config['n_ops']:
                        break
                    op = gen.next_op(world)
                else:
                    op = next(source, None)
                    if op is None:
                        break
                n += 1
                world.step = n
                executed.append(op)
                log.ev('op', op)
                world.apply(op)
            if world.violation is None and gen is not None and \
                    not world.aborted:
                # always end a generated history with a cycle (and, for C02,
                # a probe): the final state is checked too
                tail = [{'op': 'cycle'}]
                if prop == 'C02':
                    probe = gen.g_probe(world)
                    if probe:
                        tail.append(probe)
                for op in tail:
                    if world.violation is not None:
                        break
                    n += 1
                    world.step = n
                    executed.append(op)
                    log.ev('op', op)
                    world.apply(op)
            res.ops = executed
            res.violation = world.violation
            res.steps = n
            res.sim_s = clock.peek() - t_begin
            res.faults = world.faults
            res.probes = world.probes
            res.fps = world.fps
            res.nontrivial = world.nontrivial
            res.trace_fp = logmod.fingerprint(executed)
            if world.violation is not None:
                log.ev('violation', world.violation['sig'])
            res.digest = log.digest()
            res.log_lines = log.lines if keep_log else None
        finally:
            clock.uninstall()
            cellobs.set_recorder(None)
        return res


ENGINE = CellSim()
