"""File-system seam (DESIGN.md 2.5), op-level tier.

Runs use a real private directory on tmpfs.  What is nondeterministic or
fault-prone there goes behind `SeamOS` / `SeamGlob` objects installed as the
`os` / `glob` *module attributes of the modules under test*:

* listing order (`os.listdir`, `glob.glob`) is sorted and then permuted by an
  integer the current op carries (`order`; 0 = plain sorted).  The permutation
  is a pure function of (order, names): replay needs no PRNG;
* every mutating call (`symlink`, `unlink`, `rename`, ...) is a *step* of the
  current op: `Seam.tick` counts it and raises `SimCrash` *before* the k-th one
  when the op says `crash_at = k` (the process is killed at that instant: what
  is on disk stays exactly as it is);
* `Seam.checkpoint` marks the points at which an operation in progress can
  be pre-empted (a callback the code under test itself makes between two
  entries of a scan, or the per-entry `stat()` of a scan loop): the op says
  which complete operations of other actors run there;
* `stat()` / `lstat()` and the `os.path` predicates built on them
  (`exists`, `lexists`, `isdir`, ...) of one named entry fail with the errno
  the op says (`stat_fault`: a transient EIO/ESTALE, EACCES) - `Seam.lookup`;
* external commands (fake netdev / ipset / newnet calls) go through
  `Seam.command`: they are steps too, and the k-th command of the op raises
  `subproc.CalledProcessError` when the op says `fail_at = k`.

An attribute that is neither overridden nor present on the real module raises
AttributeError as usual; anything else is passed through to the real module.
"""

import glob as _real_glob
import os as _real_os
import re
import shutil
import stat as _stat_mod

from . import SimCrash, HarnessError
from . import rng as rngmod

_COUNTER = [0]

# Defects of the harness noticed by a shim while repo code was running.  The
# repo code may swallow the exception (it has broad `except Exception`
# handlers), so the shim also records it here; the engine re-raises the first
# one after the op: a harness error (exit 2), never a property violation.
PENDING_HARNESS_ERRORS = []


def harness_error(message):
    err = HarnessError(message)
    PENDING_HARNESS_ERRORS.append(err)
    return err


def raise_pending_harness_error():
    if PENDING_HARNESS_ERRORS:
        err = PENDING_HARNESS_ERRORS[0]
        del PENDING_HARNESS_ERRORS[:]
        raise err
_RANDOM_TMP = re.compile(r'^tmp[A-Za-z0-9_]{8}$')


def make_scratch():
    """Create and return a fresh private directory on tmpfs."""
    _COUNTER[0] += 1
    path = '/dev/shm/tmverif-%d-%d' % (_real_os.getpid(), _COUNTER[0])
    if _real_os.path.exists(path):
        shutil.rmtree(path)
    _real_os.makedirs(path)
    return path


def remove_scratch(path):
    if not path.startswith('/dev/shm/tmverif-'):
        raise HarnessError('refusing to remove %r' % path)
    shutil.rmtree(path, ignore_errors=True)


class Seam:
    """Per-run seam state shared by all wrappers and fakes."""

    def __init__(self):
        self.order = 0
        self.steps = 0          # steps (mutating calls + commands) in this op
        self.commands = 0       # external commands in this op
        self.crash_at = None
        self.fail_at = None
        self.crashed = False
        self.failed = False
        self.total_steps = 0
        self.on_step = None     # optional callable(kind, what)
        self.checkpoints = 0    # pre-emption points passed in this op
        self.stat_fault = None  # (entry base name, errno): lookups of that
        #                         entry fail with that errno during this op
        self.stat_faults_fired = 0
        self.on_checkpoint = None   # optional callable(count, kind)
        self.make_error = None  # callable(what) -> exception (CalledProcessError)

    def begin(self, order=0, crash_at=None, fail_at=None, stat_fault=None):
        self.stat_fault = stat_fault
        self.stat_faults_fired = 0
        self.order = order or 0
        self.steps = 0
        self.commands = 0
        self.crash_at = crash_at
        self.fail_at = fail_at
        self.crashed = False
        self.failed = False
        self.checkpoints = 0

    def checkpoint(self, kind, what=None):
        """A point at which the operation in progress can be pre-empted by
        complete operations of other actors (decided by the op)."""
        if self.on_checkpoint is not None:
            self.checkpoints += 1
            self.on_checkpoint(self.checkpoints, kind, what)

    def lookup(self, path):
        """stat()/lstat() of `path` is about to be made: injected failure?"""
        fault = self.stat_fault
        if fault is not None and _real_os.path.basename(path) == fault[0]:
            self.stat_faults_fired += 1
            self.failed = True
            raise OSError(fault[1], _real_os.strerror(fault[1]), path)

    def end(self):
        self.stat_fault = None
        self.crash_at = None
        self.fail_at = None
        self.order = 0

    def tick(self, kind, what=None):
        """One step of the current op is about to be performed."""
        self.steps += 1
        self.total_steps += 1
        if self.on_step is not None:
            self.on_step(kind, what)
        if self.crash_at is not None and self.steps == self.crash_at:
            self.crashed = True
            self.crash_at = None
            raise SimCrash('killed before step %d (%s %s)' % (
                self.steps, kind, what))

    def command(self, kind, what=None):
        """An external command is about to be run (a step that can fail)."""
        self.tick(kind, what)
        self.commands += 1
        if self.fail_at is not None and self.commands == self.fail_at:
            self.failed = True
            self.fail_at = None
            raise self.make_error('%s %s' % (kind, what))

    def permute(self, names):
        names = sorted(names)
        if self.order:
            order = self.order
            # the scratch root differs from run to run: key on the base name
            names.sort(key=lambda n: rngmod.mix(
                order, _real_os.path.basename(n)))
        return names


_MUTATORS = ('symlink', 'unlink', 'remove', 'rename', 'replace', 'mkdir',
             'makedirs', 'rmdir', 'lchown', 'link')


class SeamOS:
    """Stands in for the `os` module inside one module under test."""

    def __init__(self, seam, overrides=None, stat_checkpoint=False,
                 unlink_checkpoint=False):
        self._seam = seam
        self._overrides = dict(overrides or {})
        if unlink_checkpoint:
            # the window between the stat() that found an entry ownerless and
            # the unlink() that reclaims it (only counted while a scan is in
            # progress: Seam.on_checkpoint is set by the harness then)
            def unlink(path, *args, **kwargs):
                seam.checkpoint('unlink', _real_os.path.basename(path))
                seam.tick('fs:unlink', _short((path,)))
                return _real_os.unlink(path, *args, **kwargs)
            self._overrides['unlink'] = unlink
        def stat(path, *args, **kwargs):
            if stat_checkpoint:
                # the per-entry stat() of a scan loop is a pre-emption point
                seam.checkpoint('stat')
            seam.lookup(path)
            return _real_os.stat(path, *args, **kwargs)

        def lstat(path, *args, **kwargs):
            seam.lookup(path)
            return _real_os.lstat(path, *args, **kwargs)
        # (an override supplied by the caller wins)
        self._overrides.setdefault('stat', stat)
        self._overrides.setdefault('lstat', lstat)
        self._overrides.setdefault('path', SeamPath(self._overrides['stat'],
                                                    self._overrides['lstat']))

    def __getattr__(self, name):
        if name.startswith('_seam') or name == '_overrides':
            raise AttributeError(name)
        over = self._overrides.get(name)
        if over is not None:
            return over
        real = getattr(_real_os, name)
        if name in _MUTATORS:
            seam = self._seam

            def stepped(*args, **kwargs):
                seam.tick('fs:' + name, _short(args, name))
                return real(*args, **kwargs)
            return stepped
        return real

    def listdir(self, path='.'):
        return self._seam.permute(_real_os.listdir(path))


class SeamPath:
    """`os.path` of a SeamOS: the predicates that look a path up do it
    through the seam's stat()/lstat() (like genericpath: any OSError means
    "no"), so an injected lookup failure reaches them too."""

    def __init__(self, stat, lstat):
        self._stat = stat
        self._lstat = lstat

    def __getattr__(self, name):
        return getattr(_real_os.path, name)

    def exists(self, path):
        try:
            self._stat(path)
        except (OSError, ValueError):
            return False
        return True

    def lexists(self, path):
        try:
            self._lstat(path)
        except (OSError, ValueError):
            return False
        return True

    def isdir(self, path):
        try:
            return _stat_mod.S_ISDIR(self._stat(path).st_mode)
        except (OSError, ValueError):
            return False

    def isfile(self, path):
        try:
            return _stat_mod.S_ISREG(self._stat(path).st_mode)
        except (OSError, ValueError):
            return False

    def islink(self, path):
        try:
            return _stat_mod.S_ISLNK(self._lstat(path).st_mode)
        except (OSError, ValueError, AttributeError):
            return False


class SeamGlob:
    """Stands in for the `glob` module inside one module under test."""

    def __init__(self, seam):
        self._seam = seam

    def glob(self, pattern, **kwargs):
        return self._seam.permute(_real_glob.glob(pattern, **kwargs))

    def __getattr__(self, name):
        return getattr(_real_glob, name)


class CountingTempfile:
    """`tempfile.mktemp` with names from a counter (nothing else allowed)."""

    def __init__(self):
        self._n = 0

    def mktemp(self, suffix='', prefix='tmp', dir=None):
        # pylint: disable=redefined-builtin
        self._n += 1
        return _real_os.path.join(dir, '%ssim%06d%s' % (prefix, self._n,
                                                        suffix))

    def __getattr__(self, name):
        raise harness_error('unexpected tempfile.%s in module under test' %
                           name)


def _short(args, name=''):
    out = []
    if name in ('rename', 'replace'):
        # the source is usually a randomly named temporary file
        args = args[1:2]
    for arg in args[:2]:
        if isinstance(arg, str):
            base = _real_os.path.basename(arg)
            if _RANDOM_TMP.match(base):
                base = 'tmp<random>'     # tempfile.NamedTemporaryFile name
            out.append(base)
        else:
            out.append(repr(arg))
    return ' '.join(out)


class Patches:
    """setattr with undo (restored in reverse order)."""

    def __init__(self):
        self._undo = []

    def set(self, obj, name, value):
        self._undo.append((obj, name, getattr(obj, name)))
        setattr(obj, name, value)

    def undo(self):
        while self._undo:
            obj, name, old = self._undo.pop()
            setattr(obj, name, old)
