"""An engine that spreads the runs of one property over several engines."""

from . import engine as enginemod
from . import rng as rngmod


class MultiEngine(enginemod.Engine):
    def __init__(self, name, parts):
        self.name = name
        self.parts = parts            # [(weight, engine)]
        self.by_name = {eng.name: eng for _w, eng in parts}
        self.real_components = tuple(
            '%s: %s' % (eng.name, c) for _w, eng in parts
            for c in eng.real_components)
        self.stub_components = tuple(
            '%s: %s' % (eng.name, c) for _w, eng in parts
            for c in eng.stub_components)

    def rule(self, prop):
        return ' || '.join('[%s, weight %s] %s' % (eng.name, w, eng.rule(prop))
                           for w, eng in self.parts)

    def level(self, prop):
        return self.parts[0][1].level(prop)

    def assumptions(self, prop):
        out = []
        for _w, eng in self.parts:
            for a in eng.assumptions(prop):
                if a not in out:
                    out.append(a)
        return out

    def irrelevant_probes(self, prop):
        out = set()
        for _w, eng in self.parts:
            out |= set(eng.irrelevant_probes(prop))
        return out

    def quick_runs(self, prop):
        return self.parts[0][1].quick_runs(prop)

    def make_config(self, prop, tier, rng):
        eng = self.by_name[rngmod.weighted(
            rng, [(eng.name, w) for w, eng in self.parts])]
        cfg = eng.make_config(prop, tier, rng)
        cfg['_engine'] = eng.name
        return cfg

    def execute(self, prop, config, seed, ops=None, keep_log=False):
        eng = self.by_name[config.get('_engine', self.parts[0][1].name)]
        return eng.execute(prop, config, seed, ops=ops, keep_log=keep_log)

    def shrink_candidates(self, config, ops):
        eng = self.by_name[config.get('_engine', self.parts[0][1].name)]
        return eng.shrink_candidates(config, ops)
