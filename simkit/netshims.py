"""In-process fakes of the host facilities the network code talks to
(DESIGN.md 2.6): treadmill.netdev (device table), treadmill.iptables (ip-set
tables + call recorder), treadmill.newnet, the `socket` and `random` modules
of treadmill.runtime, `socket.gethostbyname`, plugin_manager.

Every fake is *strict* about I/O: only the I/O functions the modules under
test were seen to call exist (`SeamIO`, the `io` module of the start / finish
path, is the real one behind a counter that can make the k-th open()/read of
an op fail).  What does no I/O - constants, enums, exception
classes, address conversion functions - is passed through to the real module,
so that a correct refactoring is not flagged.  Any other attribute access is a
harness error: it is raised AND recorded (fsseam.PENDING_HARNESS_ERRORS),
because the repo code has broad exception handlers; the engine re-raises it
after the op, so it ends the check with exit 2 and is never reported as a
property violation.  Every call is a step of the current op (`Seam.command`):
it can be the kill point of the op and it can be told to fail with
`subproc.CalledProcessError`.
"""

import errno

import io as _real_io
import os as _real_os
import socket as real_socket

from .fsseam import harness_error


class Strict:
    """Base.  What does no I/O (constants, enums, exception and other
    classes of the real module) is passed through; any other unknown
    attribute is a harness error - recorded, so that it surfaces as exit 2
    even when the code under test swallows the exception, and never as a
    property violation."""

    _what = 'fake'
    _real = None

    def __getattr__(self, name):
        if name.startswith('__'):
            raise AttributeError(name)
        real = self.__dict__.get('_real') or type(self)._real
        if real is not None and not name.startswith('_') and \
                hasattr(real, name):
            value = getattr(real, name)
            if isinstance(value, type) or not callable(value) or \
                    name in self._PURE:
                return value
        raise harness_error('unexpected access %s.%s by the code under test'
                            % (self._what, name))

    _PURE = ()


class FakeNetdev(Strict):
    """Device table.  name -> dict(mtu, speed, alias, up, master, mac)."""

    _what = 'netdev'

    def __init__(self, seam, subproc, ext_device='eth0', real=None):
        self._real = real
        self._seam = seam
        self._subproc = subproc
        self.devs = {}
        self.peers = {}
        self.bridges = {}
        self.calls = 0
        self.bridge_creates = 0
        self._mac = 0
        self._new(ext_device, mtu=9000, speed=10000)

    # -- helpers (harness side)
    def _new(self, name, mtu=1500, speed=10000):
        self._mac += 1
        self.devs[name] = {'mtu': mtu, 'speed': speed, 'alias': '',
                           'up': False, 'master': None,
                           'mac': '02:00:00:00:%02x:%02x' % (
                               self._mac >> 8, self._mac & 255)}

    def _cmd(self, what, *args):
        self.calls += 1
        self._seam.command('netdev:' + what, ' '.join(str(a) for a in args))

    def _err(self, what):
        return self._subproc.CalledProcessError(1, what)

    def _need(self, name, what):
        dev = self.devs.get(name)
        if dev is None:
            raise self._err('%s %s: no such device' % (what, name))
        return dev

    def _attr(self, name, attr):
        dev = self.devs.get(name)
        if dev is None:
            raise IOError(errno.ENOENT, 'No such file or directory',
                          '/sys/class/net/%s/%s' % (name, attr))
        return dev

    # -- sysfs readers (IOError ENOENT when the device is missing)
    def dev_mtu(self, devname):
        return int(self._attr(devname, 'mtu')['mtu'])

    def dev_speed(self, devname):
        return int(self._attr(devname, 'speed')['speed'])

    def dev_alias(self, devname):
        return str(self._attr(devname, 'ifalias')['alias'])

    def dev_mac(self, devname):
        return str(self._attr(devname, 'address')['mac'])

    def dev_state(self, devname):
        return 'up' if self._attr(devname, 'operstate')['up'] else 'down'

    def bridge_brif(self, devname):
        if devname not in self.bridges:
            raise IOError(errno.ENOENT, 'No such file or directory',
                          '/sys/class/net/%s/brif' % devname)
        return sorted(n for n, d in self.devs.items()
                      if d['master'] == devname)

    # -- commands (CalledProcessError on failure)
    def link_set_up(self, devname):
        self._cmd('link_set_up', devname)
        self._need(devname, 'link_set_up')['up'] = True

    def link_set_down(self, devname):
        self._cmd('link_set_down', devname)
        self._need(devname, 'link_set_down')['up'] = False

    def link_set_alias(self, devname, alias):
        self._cmd('link_set_alias', devname, alias)
        self._need(devname, 'link_set_alias')['alias'] = alias

    def link_set_mtu(self, devname, mtu):
        self._cmd('link_set_mtu', devname, mtu)
        self._need(devname, 'link_set_mtu')['mtu'] = mtu

    def link_set_addr(self, devname, macaddr):
        self._cmd('link_set_addr', devname, macaddr)
        self._need(devname, 'link_set_addr')['mac'] = macaddr

    def link_add_veth(self, veth0, veth1):
        self._cmd('link_add_veth', veth0, veth1)
        if veth0 in self.devs or veth1 in self.devs:
            raise self._err('link_add_veth %s %s: File exists' % (veth0,
                                                                  veth1))
        self._new(veth0)
        self._new(veth1)
        self.peers[veth0] = veth1
        self.peers[veth1] = veth0

    def link_del_veth(self, devname):
        self._cmd('link_del_veth', devname)
        self._need(devname, 'link_del_veth')
        peer = self.peers.pop(devname, None)
        del self.devs[devname]
        if peer is not None:
            self.peers.pop(peer, None)
            self.devs.pop(peer, None)

    def addr_add(self, addr, devname, ptp_addr=None, addr_scope='link'):
        self._cmd('addr_add', addr, devname)
        self._need(devname, 'addr_add')

    def bridge_create(self, devname):
        self._cmd('bridge_create', devname)
        if devname in self.devs:
            raise self._err('bridge_create %s: exists' % devname)
        self._new(devname)
        self.bridges[devname] = True
        self.bridge_creates += 1

    def bridge_delete(self, devname):
        self._cmd('bridge_delete', devname)
        if devname not in self.bridges:
            raise self._err('bridge_delete %s: not a bridge' % devname)
        del self.bridges[devname]
        del self.devs[devname]
        for dev in self.devs.values():
            if dev['master'] == devname:
                dev['master'] = None

    def bridge_setfd(self, devname, forward_delay):
        self._cmd('bridge_setfd', devname, forward_delay)
        if devname not in self.bridges:
            raise self._err('bridge_setfd %s: not a bridge' % devname)

    def bridge_addif(self, devname, interface):
        self._cmd('bridge_addif', devname, interface)
        if devname not in self.bridges:
            raise self._err('bridge_addif %s: not a bridge' % devname)
        self._need(interface, 'bridge_addif')['master'] = devname

    def dev_conf_route_localnet_set(self, devname, enabled):
        self._cmd('route_localnet', devname, enabled)
        if devname not in self.devs:
            raise IOError(errno.ENOENT, 'No such file or directory',
                          '/proc/sys/net/ipv4/conf/%s' % devname)

    # -- what happens to the container side when the namespace goes away
    def snapshot(self):
        return sorted((n, d['alias'], d['master']) for n, d in
                      self.devs.items())


class FakeIptables(Strict):
    """ip-set tables as python sets, everything else as a call recorder."""

    _what = 'iptables'

    def __init__(self, seam, subproc, real):
        self._real = real
        self._seam = seam
        self._subproc = subproc
        for name in dir(real):
            if name.isupper() and not name.startswith('_'):
                setattr(self, name, getattr(real, name))
        self.sets = {}
        # who added what: (set, entry) -> list of actors (harness truth)
        self.creators = {}
        self.actor = None
        self.removed_foreign = []   # (set, entry, creators, by)
        self.calls = []
        self.flushed = []

    def _cmd(self, what, *args):
        self._seam.command('ipset:' + what, ' '.join(str(a) for a in args))

    def _err(self, what):
        return self._subproc.CalledProcessError(1, what)

    def host_init(self, names):
        """What treadmill.iptables.initialize() leaves: the sets exist."""
        for name in names:
            self.sets.setdefault(name, set())

    def create_set(self, new_set, set_type='hash:ip', **set_options):
        self._cmd('create', new_set)
        self.sets.setdefault(new_set, set())   # ipset -exist create

    def add_ip_set(self, target_set, add_ip):
        self._cmd('add', target_set, add_ip)
        if target_set not in self.sets:
            raise self._err('ipset add %s: set does not exist' % target_set)
        self.sets[target_set].add(add_ip)
        who = self.creators.setdefault((target_set, add_ip), [])
        if self.actor not in who:
            who.append(self.actor)

    def rm_ip_set(self, target_set, del_ip):
        self._cmd('del', target_set, del_ip)
        if target_set not in self.sets:
            raise self._err('ipset del %s: set does not exist' % target_set)
        if del_ip in self.sets[target_set]:
            self.sets[target_set].discard(del_ip)
            who = self.creators.pop((target_set, del_ip), [])
            foreign = [w for w in who if w != self.actor]
            if foreign:
                self.removed_foreign.append((target_set, del_ip, foreign,
                                             self.actor))

    def test_ip_set(self, target_set, test_ip):
        return test_ip in self.sets.get(target_set, ())

    def atomic_set(self, target_set, content, set_type='hash:ip',
                   **set_options):
        content = set(content)
        self._cmd('atomic_set', target_set, len(content))
        if target_set not in self.sets:
            raise self._err('ipset swap %s: set does not exist' % target_set)
        old = self.sets[target_set]
        self.sets[target_set] = set(content)
        for entry in old - content:
            self.creators.pop((target_set, entry), None)
        for entry in content - old:
            self.creators[(target_set, entry)] = [self.actor]

    def flush_cnt_conntrack_table(self, vip):
        self._cmd('conntrack_flush', vip)
        self.flushed.append(vip)

    def snapshot(self):
        return {name: sorted(entries) for name, entries in
                sorted(self.sets.items())}


class FakeNewnet(Strict):
    _what = 'newnet'

    def __init__(self, seam):
        self._seam = seam
        self.created = []

    def create_newnet(self, veth, dev_ip, gateway_ip, service_ip=None):
        self._seam.command('newnet:create', veth)
        self.created.append((veth, dev_ip, gateway_ip, service_ip))


class FakePluginManager(Strict):
    """The firewall plugin section of entry_points.txt is empty."""

    _what = 'plugin_manager'

    def __init__(self):
        self.asked = 0

    def load(self, namespace, name):
        self.asked += 1
        if namespace != 'treadmill.firewall.plugins':
            raise harness_error('unexpected plugin %s:%s' % (namespace,
                                                              name))
        raise KeyError('%s:%s' % (namespace, name))


class FakeSocket:
    """One socket of the fake host port table."""

    def __init__(self, mod, family, sock_type):
        self._mod = mod
        self.family = family
        self.type = sock_type
        self.addr = None
        self.closed = False
        self.inheritable = False

    def bind(self, addr):
        self._mod.binds += 1
        host, port = addr
        key = (self.type, port)
        if key in self._mod.bound or key in self._mod.foreign:
            self._mod.collisions += 1
            raise self._mod.error(errno.EADDRINUSE, 'Address already in use')
        self._mod.bound[key] = self._mod.actor
        self.addr = (host, port)

    def setsockopt(self, *_args):
        pass

    def listen(self, _backlog):
        pass

    def set_inheritable(self, flag):
        self.inheritable = flag

    def getsockname(self):
        return self.addr

    def close(self):
        if not self.closed and self.addr is not None:
            self._mod.bound.pop((self.type, self.addr[1]), None)
        self.closed = True

    def __getattr__(self, name):
        raise harness_error('unexpected socket.%s by the code under test' %
                           name)


class FakeSocketMod(Strict):
    """Stands in for the `socket` module (treadmill.runtime, _run, _finish)."""

    _what = 'socket'
    _real = real_socket
    # no I/O: address conversion, byte order
    _PURE = ('inet_aton', 'inet_ntoa', 'inet_pton', 'inet_ntop', 'htons',
             'ntohs', 'htonl', 'ntohl')

    def __init__(self, dns, seam=None):
        self.gaierror = real_socket.gaierror
        self._seam = seam
        self.failing = set()   # hosts the resolver cannot resolve right now
        self.resolve_failures = 0
        self.bound = {}      # (type, port) -> actor holding it
        self.foreign = set()  # (type, port) held by unrelated host processes
        self.actor = None
        self.dns = dict(dns)
        self.binds = 0
        self.collisions = 0
        self.lookups = 0

    def socket(self, family, sock_type):
        return FakeSocket(self, family, sock_type)

    def gethostbyname(self, host):
        """As the real one: an IPv4 literal in any form inet_aton accepts is
        returned in canonical dotted-quad form without asking the resolver;
        names go through the fixed table (and the injected faults)."""
        self.lookups += 1
        try:
            return real_socket.inet_ntoa(real_socket.inet_aton(host))
        except (OSError, TypeError, UnicodeError):
            pass
        if host not in self.dns:
            raise harness_error('unexpected DNS lookup %r' % host)
        if host in self.failing:
            # injected resolver failure (EAI_NONAME / EAI_AGAIN)
            self.resolve_failures += 1
            if self._seam is not None:
                self._seam.failed = True
            raise self.gaierror(-2, 'Name or service not known')
        return self.dns[host]

    def gethostbyname_ex(self, host):
        return (host, [], [self.gethostbyname(host)])

    def getaddrinfo(self, host, port, family=0, type=0, proto=0, flags=0):
        # pylint: disable=redefined-builtin,unused-argument
        addr = self.gethostbyname(host)
        kinds = [(real_socket.SOCK_STREAM, 6), (real_socket.SOCK_DGRAM, 17)]
        return [(real_socket.AF_INET, kind, prot, '', (addr, port or 0))
                for kind, prot in kinds if type in (0, kind)]

    def release(self, actor):
        """The process of `actor` died: the kernel closes its sockets."""
        for key in [k for k, who in self.bound.items() if who == actor]:
            del self.bound[key]


class SeamFile:
    """A file opened through `SeamIO`: the real file object, with every read
    call announced to the shim first (it is an I/O point that can fail)."""

    def __init__(self, shim, real, path):
        self._shim = shim
        self._file = real
        self._path = path

    def _point(self):
        self._shim.point('read', self._path)

    def read(self, *args):
        self._point()
        return self._file.read(*args)

    def readline(self, *args):
        self._point()
        return self._file.readline(*args)

    def readlines(self, *args):
        self._point()
        return self._file.readlines(*args)

    def __iter__(self):
        return self

    def __next__(self):
        line = self.readline()
        if not line:
            raise StopIteration
        return line

    def __enter__(self):
        self._file.__enter__()
        return self

    def __exit__(self, *exc_info):
        return self._file.__exit__(*exc_info)

    def __getattr__(self, name):
        if name.startswith('__'):
            raise AttributeError(name)
        return getattr(self._file, name)


class SeamIO(Strict):
    """Stands in for the `io` module inside the modules under test
    (services._base_service, appcfg.manifest, runtime.linux._finish).

    Every `io.open()` and every read call on a file opened through it is an
    *I/O point* of the current op, numbered from 1 in program order.  When the
    op says `io_fault = {"at": k, "errno": E}` the k-th point fails with
    OSError(E) instead of being performed: a transient failure of one system
    call (file table full, out of memory, I/O error, access denied), gone
    when the call is made again.  ENFILE / EMFILE / EACCES are errors of
    open(2) only: when the k-th point is a read they are delivered as EIO.
    I/O points are not steps (`Seam.tick`): the numbering of kill points and
    commands of an op is what it was without this shim.
    """

    _what = 'io'
    _real = _real_io
    OPEN_ONLY = (errno.ENFILE, errno.EMFILE, errno.EACCES)

    def __init__(self, seam):
        self._seam = seam
        self.fault = None     # (k, errno) | None
        self.points = 0       # I/O points passed in this op
        self.fired = 0
        self.last = None      # (kind, base name, errno) of the last failure

    def begin(self, fault=None):
        self.fault = fault
        self.points = 0
        self.fired = 0
        self.last = None

    def end(self):
        self.fault = None

    def suspend(self):
        """Another process runs (the service a client waits for): its calls
        are not I/O points of the current op."""
        saved = (self.fault, self.points)
        self.fault = None
        return saved

    def resume(self, saved):
        self.fault, self.points = saved

    def point(self, kind, path):
        self.points += 1
        base = _real_os.path.basename(str(path))
        seam = self._seam
        if seam.on_step is not None:
            seam.on_step('io:' + kind, base)
        fault = self.fault
        if fault is not None and self.points == fault[0]:
            self.fault = None
            code = fault[1]
            if kind != 'open' and code in self.OPEN_ONLY:
                code = errno.EIO
            self.fired += 1
            self.last = (kind, base, code)
            seam.failed = True
            raise OSError(code, _real_os.strerror(code), str(path))

    def open(self, file, mode='r', *args, **kwargs):
        # pylint: disable=redefined-builtin
        if not isinstance(file, (str, bytes)):
            raise harness_error('unexpected io.open(%r) by the code under '
                                'test' % (file,))
        self.point('open', file)
        real = _real_io.open(file, mode, *args, **kwargs)
        return SeamFile(self, real, file)


class HotFirst:
    """A permutation of a port pool that starts with a few 'hot' ports.

    `random.sample(pool, len(pool))` may return any permutation; this one
    makes different containers contend for the same few ports so that
    EADDRINUSE and port reuse after a process death actually happen.
    Pure function of (pool, key).
    """

    def __init__(self, pool, key, hot):
        self._pool = pool
        self._key = key
        self._hot = min(hot, len(pool))

    def __iter__(self):
        from . import rng as rngmod
        pool, key = self._pool, self._key
        head = sorted(range(self._hot), key=lambda i: rngmod.mix(key, i))
        for i in head:
            yield pool[i]
        n = len(pool)
        start = self._hot + (rngmod.mix(key, 'rot') % max(1, n - self._hot))
        for j in range(n - self._hot):
            i = self._hot + (start - self._hot + j) % (n - self._hot)
            yield pool[i]

    def __len__(self):
        return len(self._pool)


class FakeRandom(Strict):
    """Stands in for the `random` module of treadmill.runtime."""

    _what = 'random'

    def __init__(self):
        self.key = 0
        self.hot = 6
        self.calls = 0

    def sample(self, population, k):
        self.calls += 1
        if k != len(population):
            raise harness_error('random.sample(k != len(pool))')
        return HotFirst(population, (self.key, self.calls), self.hot)


class FakeOsGetpid:
    """`os` of treadmill.runtime.linux._run: getpid is the container's."""

    def __init__(self):
        self.pid = 1

    def getpid(self):
        return self.pid
